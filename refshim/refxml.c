/* refxml.c - independent reference oracle (O3) over the system libxml2.
 *
 * ref_parse : parse a UTF-8 buffer as XML 1.0 (5th ed. rules as implemented by libxml2 2.9),
 *             return "WF <0|1> <errNo>\n" followed by a canonical dump of the tree
 *             (merged-text view: entities substituted, CDATA as text, adjacent text coalesced).
 * ref_xpath : evaluate an XPath 1.0 expression, return a canonical dump of the value.
 * Strings are escaped: '\\' -> "\\\\", '\n' -> "\\n", '\r' -> "\\r", '\t' -> "\\t".
 * All returned buffers are malloc'ed; free with ref_free.
 */
#include <stdio.h>
#include <stdlib.h>
#include <string.h>
#include <math.h>
#include <libxml/parser.h>
#include <libxml/tree.h>
#include <libxml/xpath.h>
#include <libxml/xpathInternals.h>
#include <libxml/hash.h>
#include <libxml/entities.h>
#include <expat.h>

typedef struct { char *p; size_t n, cap; } sb;
static void sb_put(sb *b, const char *s, size_t n) {
    if (b->n + n + 1 > b->cap) {
        size_t c = b->cap ? b->cap * 2 : 256;
        while (c < b->n + n + 1) c *= 2;
        b->p = (char *)realloc(b->p, c); b->cap = c;
    }
    memcpy(b->p + b->n, s, n); b->n += n; b->p[b->n] = 0;
}
static void sb_s(sb *b, const char *s) { sb_put(b, s, strlen(s)); }
static void sb_esc(sb *b, const xmlChar *s) {
    if (!s) { sb_s(b, "~"); return; }
    sb_s(b, "\"");
    for (const unsigned char *c = s; *c; c++) {
        switch (*c) {
        case '\\': sb_s(b, "\\\\"); break;
        case '\n': sb_s(b, "\\n"); break;
        case '\r': sb_s(b, "\\r"); break;
        case '\t': sb_s(b, "\\t"); break;
        case '"': sb_s(b, "\\q"); break;
        default: sb_put(b, (const char *)c, 1);
        }
    }
    sb_s(b, "\"");
}
static void sb_int(sb *b, long v) { char t[32]; snprintf(t, sizeof t, "%ld", v); sb_s(b, t); }

static void silent(void *ctx, const char *msg, ...) { (void)ctx; (void)msg; }
static void silent_s(void *ctx, xmlErrorPtr e) { (void)ctx; (void)e; }

static int is_textish(xmlNodePtr n) {
    return n->type == XML_TEXT_NODE || n->type == XML_CDATA_SECTION_NODE;
}

typedef struct { sb *b; char **names; int n; int cap; xmlHashTablePtr h; } scan_t;
static void collect_name(void *payload, void *data, const xmlChar *name) {
    scan_t *s = (scan_t *)data; (void)payload;
    if (s->n == s->cap) { s->cap = s->cap ? s->cap * 2 : 8; s->names = realloc(s->names, sizeof(char *) * s->cap); }
    s->names[s->n++] = (char *)name;
}
static int cmpstr(const void *a, const void *b) { return strcmp(*(char *const *)a, *(char *const *)b); }

static void dump_attrs(sb *b, xmlNodePtr e, int depth) {
    /* attributes sorted by (ns uri, local) */
    int n = 0; for (xmlAttrPtr a = e->properties; a; a = a->next) n++;
    xmlAttrPtr *v = malloc(sizeof(xmlAttrPtr) * (n + 1)); int i = 0;
    for (xmlAttrPtr a = e->properties; a; a = a->next) v[i++] = a;
    for (i = 1; i < n; i++) { /* insertion sort on qualified key */
        xmlAttrPtr x = v[i]; int j = i - 1;
        while (j >= 0) {
            const char *pa = v[j]->ns && v[j]->ns->prefix ? (const char *)v[j]->ns->prefix : "";
            const char *px = x->ns && x->ns->prefix ? (const char *)x->ns->prefix : "";
            int c = strcmp(pa, px); if (c == 0) c = strcmp((const char *)v[j]->name, (const char *)x->name);
            if (c <= 0) break; v[j + 1] = v[j]; j--;
        }
        v[j + 1] = x;
    }
    for (i = 0; i < n; i++) {
        xmlAttrPtr a = v[i];
        sb_s(b, "A "); sb_int(b, depth); sb_s(b, " ");
        sb_esc(b, a->ns ? a->ns->prefix : NULL); sb_s(b, " "); sb_esc(b, a->name); sb_s(b, " ");
        sb_esc(b, a->ns ? a->ns->href : NULL); sb_s(b, " ");
        xmlChar *val = xmlNodeListGetString(e->doc, a->children, 1);
        sb_esc(b, val ? val : (const xmlChar *)""); if (val) xmlFree(val);
        sb_s(b, "\n");
    }
    free(v);
    /* in-scope namespaces of this element (without the implicit xml prefix), sorted by prefix */
    xmlNsPtr *list = xmlGetNsList(e->doc, e);
    int m = 0; if (list) while (list[m]) m++;
    for (i = 1; i < m; i++) { xmlNsPtr x = list[i]; int j = i - 1;
        while (j >= 0 && strcmp(list[j]->prefix ? (const char *)list[j]->prefix : "", x->prefix ? (const char *)x->prefix : "") > 0) { list[j + 1] = list[j]; j--; }
        list[j + 1] = x; }
    for (i = 0; i < m; i++) {
        if (list[i]->prefix && strcmp((const char *)list[i]->prefix, "xml") == 0) continue;
        if (!list[i]->href || !list[i]->href[0]) continue;
        sb_s(b, "I "); sb_int(b, depth); sb_s(b, " "); sb_esc(b, list[i]->prefix); sb_s(b, " "); sb_esc(b, list[i]->href); sb_s(b, "\n");
    }
    if (list) xmlFree(list);
}

static void dump_children(sb *b, xmlNodePtr first, int depth);
static void dump_node(sb *b, xmlNodePtr n, int depth) {
    switch (n->type) {
    case XML_ELEMENT_NODE:
        sb_s(b, "E "); sb_int(b, depth); sb_s(b, " ");
        sb_esc(b, n->ns ? n->ns->prefix : NULL); sb_s(b, " "); sb_esc(b, n->name); sb_s(b, " ");
        sb_esc(b, n->ns ? n->ns->href : NULL); sb_s(b, "\n");
        dump_attrs(b, n, depth + 1);
        dump_children(b, n->children, depth + 1);
        break;
    case XML_COMMENT_NODE:
        sb_s(b, "C "); sb_int(b, depth); sb_s(b, " "); sb_esc(b, n->content ? n->content : (const xmlChar *)""); sb_s(b, "\n"); break;
    case XML_PI_NODE:
        sb_s(b, "P "); sb_int(b, depth); sb_s(b, " "); sb_esc(b, n->name); sb_s(b, " "); sb_esc(b, n->content ? n->content : (const xmlChar *)""); sb_s(b, "\n"); break;
    case XML_ENTITY_REF_NODE:
        sb_s(b, "R "); sb_int(b, depth); sb_s(b, " "); sb_esc(b, n->name); sb_s(b, "\n"); break;
    case XML_DTD_NODE: {
        xmlDtdPtr d = (xmlDtdPtr)n;
        sb_s(b, "T "); sb_int(b, depth); sb_s(b, " "); sb_esc(b, d->name); sb_s(b, " "); sb_esc(b, d->ExternalID); sb_s(b, " "); sb_esc(b, d->SystemID); sb_s(b, "\n");
        /* notations */
        if (d->notations) {
            scan_t s = {b, NULL, 0, 0, (xmlHashTablePtr)d->notations};
            xmlHashScan(s.h, collect_name, &s);
            qsort(s.names, s.n, sizeof(char *), cmpstr);
            for (int i = 0; i < s.n; i++) {
                xmlNotationPtr no = (xmlNotationPtr)xmlHashLookup(s.h, (const xmlChar *)s.names[i]);
                sb_s(b, "O "); sb_esc(b, no->name); sb_s(b, " "); sb_esc(b, no->PublicID); sb_s(b, " "); sb_esc(b, no->SystemID); sb_s(b, "\n");
            }
            free(s.names);
        }
        if (d->entities) {
            scan_t s = {b, NULL, 0, 0, (xmlHashTablePtr)d->entities};
            xmlHashScan(s.h, collect_name, &s);
            qsort(s.names, s.n, sizeof(char *), cmpstr);
            for (int i = 0; i < s.n; i++) {
                xmlEntityPtr en = (xmlEntityPtr)xmlHashLookup(s.h, (const xmlChar *)s.names[i]);
                if (en->etype == XML_EXTERNAL_GENERAL_UNPARSED_ENTITY) {
                    sb_s(b, "U "); sb_esc(b, en->name); sb_s(b, " "); sb_esc(b, en->ExternalID); sb_s(b, " "); sb_esc(b, en->SystemID); sb_s(b, " "); sb_esc(b, en->content); sb_s(b, "\n");
                }
            }
            free(s.names);
        }
        /* PIs inside the internal subset */
        for (xmlNodePtr c = d->children; c; c = c->next)
            if (c->type == XML_PI_NODE) dump_node(b, c, depth + 1);
        break; }
    default: break;
    }
}
static void dump_children(sb *b, xmlNodePtr first, int depth) {
    xmlNodePtr c = first;
    while (c) {
        if (is_textish(c)) {
            sb t = {0, 0, 0};
            while (c && is_textish(c)) { if (c->content) sb_s(&t, (const char *)c->content); c = c->next; }
            if (t.n) { sb_s(b, "X "); sb_int(b, depth); sb_s(b, " "); sb_esc(b, (const xmlChar *)t.p); sb_s(b, "\n"); }
            free(t.p);
            continue;
        }
        dump_node(b, c, depth);
        c = c->next;
    }
}

static xmlDocPtr parse_doc(const char *buf, int len, int opts, int *wf, int *err) {
    xmlParserCtxtPtr ctxt = xmlNewParserCtxt();
    if (!ctxt) return NULL;
    xmlSetGenericErrorFunc(NULL, silent);
    xmlSetStructuredErrorFunc(NULL, silent_s);
    xmlDocPtr doc = xmlCtxtReadMemory(ctxt, buf, len, "in.xml", NULL,
        opts | XML_PARSE_NONET | XML_PARSE_NOERROR | XML_PARSE_NOWARNING | XML_PARSE_HUGE);
    *wf = ctxt->wellFormed; *err = ctxt->errNo;
    xmlFreeParserCtxt(ctxt);
    return doc;
}

/* opts bit0: substitute entities + cdata-as-text + default attrs (merged view) */
char *ref_parse(const char *buf, int len, int mode) {
    int wf = 0, err = 0;
    int opts = 0;
    if (mode & 1) opts |= XML_PARSE_NOENT | XML_PARSE_NOCDATA | XML_PARSE_DTDATTR;
    xmlDocPtr doc = parse_doc(buf, len, opts, &wf, &err);
    sb b = {0, 0, 0};
    sb_s(&b, "WF "); sb_int(&b, wf); sb_s(&b, " "); sb_int(&b, err); sb_s(&b, "\n");
    if (doc && wf) {
        sb_s(&b, "D "); sb_esc(&b, doc->version); sb_s(&b, " "); sb_esc(&b, doc->encoding); sb_s(&b, " "); sb_int(&b, doc->standalone < 0 ? -1 : doc->standalone); sb_s(&b, "\n");
        dump_children(&b, doc->children, 0);
    }
    if (doc) xmlFreeDoc(doc);
    return b.p;
}

/* locator of a node: child-index path in the merged view */
static void locator(sb *b, xmlNodePtr n) {
    if (!n) { sb_s(b, "?"); return; }
    if (n->type == XML_DOCUMENT_NODE) { sb_s(b, "/"); return; }
    if (n->type == XML_ATTRIBUTE_NODE) {
        locator(b, n->parent); sb_s(b, "@");
        xmlAttrPtr a = (xmlAttrPtr)n;
        if (a->ns && a->ns->prefix) { sb_s(b, (const char *)a->ns->prefix); sb_s(b, ":"); }
        sb_s(b, (const char *)n->name); return;
    }
    if (n->type == XML_NAMESPACE_DECL) {
        xmlNsPtr ns = (xmlNsPtr)n;
        xmlNodePtr owner = (ns->next && ns->next->type != XML_NAMESPACE_DECL) ? (xmlNodePtr)ns->next : NULL;
        locator(b, owner); sb_s(b, "#"); if (ns->prefix) sb_s(b, (const char *)ns->prefix);
        sb_s(b, "="); sb_s(b, (const char *)(ns->href ? ns->href : (const xmlChar *)"")); return;
    }
    locator(b, n->parent);
    /* merged index among siblings */
    long idx = 0; xmlNodePtr c = n->parent ? n->parent->children : NULL; int prev_text = 0;
    for (; c; c = c->next) {
        if (c->type == XML_DTD_NODE) continue; /* not a node of the XPath data model */
        int t = is_textish(c);
        if (c == n) { if (t && prev_text) idx--; break; }
        if (t) { if (!prev_text) idx++; prev_text = 1; } else { idx++; prev_text = 0; }
    }
    if (n->parent && n->parent->type != XML_DOCUMENT_NODE) sb_s(b, "/");
    sb_int(b, idx);
}

/* ns: "prefix=uri\nprefix2=uri2\n" */
char *ref_xpath(const char *buf, int len, const char *expr, const char *ns) {
    int wf = 0, err = 0;
    xmlDocPtr doc = parse_doc(buf, len, XML_PARSE_NOENT | XML_PARSE_NOCDATA | XML_PARSE_DTDATTR, &wf, &err);
    sb b = {0, 0, 0};
    if (!doc || !wf) { sb_s(&b, "NODOC\n"); if (doc) xmlFreeDoc(doc); return b.p; }
    xmlXPathContextPtr ctx = xmlXPathNewContext(doc);
    ctx->node = (xmlNodePtr)doc;
    const char *p = ns;
    while (p && *p) {
        const char *eq = strchr(p, '='); const char *nl = strchr(p, '\n');
        if (!eq || !nl || eq > nl) break;
        char *pre = strndup(p, eq - p), *uri = strndup(eq + 1, nl - eq - 1);
        xmlXPathRegisterNs(ctx, (const xmlChar *)pre, (const xmlChar *)uri);
        free(pre); free(uri); p = nl + 1;
    }
    xmlXPathObjectPtr r = xmlXPathEvalExpression((const xmlChar *)expr, ctx);
    if (!r) { sb_s(&b, "ERR\n"); }
    else {
        switch (r->type) {
        case XPATH_BOOLEAN: sb_s(&b, r->boolval ? "B true\n" : "B false\n"); break;
        case XPATH_NUMBER: {
            char t[64];
            if (isnan(r->floatval)) snprintf(t, sizeof t, "F NaN\n");
            else if (isinf(r->floatval)) snprintf(t, sizeof t, r->floatval > 0 ? "F Infinity\n" : "F -Infinity\n");
            else snprintf(t, sizeof t, "F %.17g\n", r->floatval);
            sb_s(&b, t); break; }
        case XPATH_STRING: sb_s(&b, "S "); sb_esc(&b, r->stringval ? r->stringval : (const xmlChar *)""); sb_s(&b, "\n"); break;
        case XPATH_NODESET: {
            int n = r->nodesetval ? r->nodesetval->nodeNr : 0;
            sb_s(&b, "N "); sb_int(&b, n); sb_s(&b, "\n");
            if (n > 1) xmlXPathNodeSetSort(r->nodesetval);
            for (int i = 0; i < n; i++) { locator(&b, r->nodesetval->nodeTab[i]); sb_s(&b, "\n"); }
            break; }
        default: sb_s(&b, "OTHER\n");
        }
        xmlXPathFreeObject(r);
    }
    xmlXPathFreeContext(ctx);
    xmlFreeDoc(doc);
    return b.p;
}

void ref_free(char *p) { free(p); }
void ref_init(void) { xmlInitParser(); xmlSetGenericErrorFunc(NULL, silent); }

/* second independent opinion on well-formedness (expat): 1 = well-formed, 0 = not, -1 = no parser */
int ref_expat_wf(const char *buf, int len) {
    XML_Parser p = XML_ParserCreate("UTF-8");
    if (!p) return -1;
    int ok = XML_Parse(p, buf, len, 1) == XML_STATUS_OK;
    XML_ParserFree(p);
    return ok;
}
