#!/bin/bash
# run the repository's unedited test suite (guard off) and, if all 603 pass, commit the working-tree change with the given message
set -e
cd /repo
out=$(cargo test --workspace --offline 2>&1 | grep -E "^test result" | awk '{p+=$4; f+=$6} END {print p" "f}')
echo "passed/failed: $out"
if [ "$out" != "603 0" ]; then echo "NOT COMMITTED"; cargo test --workspace --offline 2>&1 | grep -E "^test .* FAILED|panicked" | head -20; exit 1; fi
git add -A && git commit -q -m "$1" && git log --oneline | head -1
