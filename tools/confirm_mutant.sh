#!/bin/bash
# confirm_mutant.sh <patch.diff> <demo.rs> <crate-dir (dom|xpath|info|parser|nom)>
# In a scratch worktree: (1) patch applies, (2) unedited suite passes with it, (3) demo fails with it, (4) demo passes without it.
set -u
PATCH=$(readlink -f "$1"); DEMO=$(readlink -f "$2"); CRATE=$3
WT=/tmp/wt/confirm-${CONFIRM_TAG:-0}
export CARGO_TARGET_DIR=/tmp/wt/confirm-${CONFIRM_TAG:-0}-target CARGO_NET_OFFLINE=true
git -C /repo worktree remove --force $WT >/dev/null 2>&1
git -C /repo worktree add -q $WT HEAD || exit 2
cd $WT
git apply "$PATCH" || { echo "RESULT patch-does-not-apply"; exit 1; }
suite=$(cargo test --workspace --offline 2>&1 | grep -E "^test result" | awk '{p+=$4; f+=$6} END {print p" "f}')
mkdir -p $CRATE/tests; cp "$DEMO" $CRATE/tests/seeded_demo.rs
pkg=$(grep -m1 '^name' $CRATE/Cargo.toml | sed 's/.*"\(.*\)"/\1/')
with=$(cargo test -p $pkg --test seeded_demo --offline 2>&1 | grep -E "^test result" | awk '{p+=$4; f+=$6} END {print p" "f}')
git checkout -q -- . 
without=$(cargo test -p $pkg --test seeded_demo --offline 2>&1 | grep -E "^test result" | awk '{p+=$4; f+=$6} END {print p" "f}')
echo "RESULT suite_with_patch=[$suite] demo_with_patch=[$with] demo_without_patch=[$without]"
cd /; git -C /repo worktree remove --force $WT; rm -rf $CARGO_TARGET_DIR
