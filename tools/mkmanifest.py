#!/usr/bin/env python3
"""regenerate /verif/MANIFEST.json from the table below (edit here, not the JSON)"""
import json, subprocess
TECH = {
 "C01": "reference-model monitor: DocModel denotation vs xml-rs observation (raw + merged view), libxml2 cross-check, model-level shrinking",
 "C02": "differential monitor: ill-formed-by-construction operators and blind edits judged by libxml2+expat vs xml-rs accept/reject",
 "C03": "event-log totality monitor: panic capture, logical step budget (hook), child-process isolation for size families",
 "C04": "metamorphic monitor: print -> parse -> compare (PartialEq, observation, fixpoint)",
 "C05": "reference-model monitor: hand-written XPath 1.0 evaluator over the DocModel vs xml_xpath::query, libxml2 as second opinion, bug-compatible switches for recorded findings",
 "C06": "event-log totality monitor for XPath: panic capture, logical step budget (hook), child-process isolation for expression/document size families",
 "C07": "invariant monitor on every node-set returned (duplicates, document order by independent traversal) + algebraic metamorphic laws of union and positional filters",
 "C08": "metamorphic monitor: several spellings of one AST must evaluate identically; exhaustive operator-pair precedence table against the reference evaluator; node-type tests vs explicit child:: forms",
 "C09": "reference-model monitor over an exhaustive value-pool lattice (functions x arities x operators), checked and release builds, libxml2 as second opinion",
 "C10": "reference-model + metamorphic monitor: expanded names/in-scope sets vs DocModel, name tests vs reference evaluator, invariance under prefix renaming of document and of caller bindings",
 "C11": "reference-model monitor: attribute normaliser/defaulter (XML 1.0 3.3.3) vs Attr::value/specified over an exhaustive piece alphabet x type x default x layout, libxml2 cross-check",
 "C12": "invariant monitor after every call of random DOM edit histories (parent/child/sibling views, cycles, uniqueness of document element and doctype)",
 "C13": "lock-step reference-model monitor: DOM Level 1 tree model with admissible exception sets vs xml_dom mutators; atomicity of failed calls by before/after observation",
 "C14": "invariant monitor on document-order keys after every call (pre-order walk, hook on the order vector) + metamorphic edited-vs-reparsed query battery",
 "C15": "metamorphic monitor: after every successful call print -> parse -> compare merged observations",
 "C16": "lock-step reference-model monitor: Vec<char> CharacterData model over an exhaustive offset/count lattice and random call sequences, checked and release builds",
 "C17": "process-level monitor of xq/xe: exit status, stderr, output re-read by independent parsers and compared with the model result",
 "C18": "exhaustive comparison of the five character-class predicates with spec tables over all scalar values; exhaustive short-name acceptance table (also behind the keyword stems xmlns/xml) in four syntactic positions; every scalar value run through the real name parsers",
 "C19": "metamorphic monitor (parse twice; fresh vs shared context; before vs after) + hook invariant on the context stacks after every query",
}
CLAIMED = __import__("os").environ.get("CLAIMED", "C01 C02 C03 C04 C05 C06 C07 C08 C09 C10 C11 C12 C13 C14 C15 C16 C17 C18 C19").split()
ALL = ["C%02d" % i for i in range(1, 20)]
commits = subprocess.run(["git", "-C", "/repo", "log", "--format=%h %s"], stdout=subprocess.PIPE, text=True).stdout.splitlines()
hooks = [l.split()[0] for l in commits if l.split(" ", 1)[1].startswith("verif hook")]
m = {
 "version": 1,
 "setup_cmd": "cd /verif/harness && RUSTFLAGS='--cfg xml_rs_verif' CARGO_NET_OFFLINE=true cargo build --offline --quiet && RUSTFLAGS='--cfg xml_rs_verif' CARGO_NET_OFFLINE=true cargo build --offline --quiet --release",
 "hooks": {"guard": "xml_rs_verif", "enable": "RUSTFLAGS=\"--cfg xml_rs_verif\" (set by ./check for every build of the harness, which path-depends on /repo/{nom,parser,info,dom,xpath})",
           "baseline_off_cmd": "cd /repo && cargo test --workspace --no-fail-fast --offline", "source_commits": hooks, "add_only": True},
 "engines": [{"name": "xv", "path": "/verif/harness", "serves_properties": ALL, "kind_free_text": "Rust worker binary (generators, reference models, monitors) driven by the python supervisor /verif/check; C shim /verif/refshim/refxml.c over libxml2+expat"}],
 "checks": [], "not_applicable": [],
 "notes": "runtime monitoring only; see DESIGN.md. Exit 2 of a check means the check itself is broken/inconclusive, never a violation.",
}
for p in ALL:
    if p in CLAIMED:
        m["checks"].append({"property_id": p, "quick_cmd": "./check %s --tier quick" % p, "thorough_cmd": "./check %s --tier thorough" % p,
            "evidence_file": "/verif/evidence/%s.json" % p, "replay_cmd_template": "./check %s --replay {path}" % p, "engine": "xv",
            "level_claimed": {"category": "exploration", "text": "held on the executions observed: generated/enumerated cases run through the real xml-rs code with a monitor comparing against reference oracles or invariants; no claim beyond the explored inputs", "design_ref": "DESIGN.md section 4 (%s)" % p},
            "level_note": "trusted base: the harness's generators and reference oracles (O1/O2), libxml2 2.9.14 + expat as second opinion (O3) where applicable; known findings listed in known_findings.json are matched on exact signatures",
            "technique": TECH[p]})
    else:
        m["not_applicable"].append({"property_id": p, "reason": "check not built yet in this revision of /verif (work in progress; the property is applicable and will be claimed once its monitor exists)"})
json.dump(m, open("/verif/MANIFEST.json", "w"), indent=1)
print("claimed", CLAIMED)
