#!/usr/bin/env python3
"""Apply every archived seeded change to /repo in turn, run the checks its meta.json names (quick tier), undo it,
and write seeded/RESULTS.json. /repo must be clean; nothing else may build from /repo while this runs."""
import json, os, re, subprocess, sys, time
root = '/verif/seeded'
only = sys.argv[1:]
res = {}
out_path = os.path.join(root, 'RESULTS.json')
if os.path.exists(out_path) and only:
    res = json.load(open(out_path))
for d in sorted(os.listdir(root)):
    mp = os.path.join(root, d, 'meta.json')
    if not os.path.exists(mp) or (only and d not in only): continue
    meta = json.load(open(mp))
    props = []
    for x in meta.get('detected_by', []):
        m = re.match(r'(C\d\d)', x)
        if m and m.group(1) not in props: props.append(m.group(1))
    if meta['property'] not in props: props.append(meta['property'])
    t0 = time.time()
    p = subprocess.run(['/verif/tools/seedtest.sh', os.path.join(root, d, 'patch.diff'), 'quick'] + props, capture_output=True)
    p_stdout = p.stdout.decode('utf-8', errors='replace')
    rows = {}
    cur = None
    for line in p_stdout.splitlines():
        m = re.match(r'== (C\d\d) exit=(\d+)', line)
        if m: cur = m.group(1); rows[cur] = {'exit': int(m.group(2)), 'signatures': []}; continue
        m = re.match(r'violation signature (\S+) \((\d+) cases\)', line)
        if m and cur: rows[cur]['signatures'].append(m.group(1))
    caught = [k for k, v in rows.items() if v['exit'] == 1]
    res[d] = {'property': meta['property'], 'checks': rows, 'caught_by': caught, 'own_check_catches': meta['property'] in caught, 'seconds': round(time.time() - t0)}
    print(d, 'caught by', caught, 'own' if meta['property'] in caught else 'NOT-OWN', flush=True)
    if 'not clean' in p_stdout or 'does not apply' in p_stdout: print('  PROBLEM:', p_stdout[:300], flush=True)
    json.dump(res, open(out_path, 'w'), indent=1)
# leave the binaries of the unchanged tree behind
subprocess.run(['/verif/check', 'C09', '--tier', 'quick'], capture_output=True)
