#!/bin/bash
# confirm every delivered mutant under /tmp/wt/*.out (patch.diff+demo.rs, patch2.diff+demo2.rs)
for out in /tmp/wt/*.out; do
  id=$(basename $out .out)
  for k in "" 2; do
    patch=$out/patch$k.diff; demo=$out/demo$k.rs
    [ -f $patch ] || continue
    [ -f $demo ] || demo=$(ls $out/demo$k*.rs 2>/dev/null | head -1)
    [ -f "$demo" ] || { echo "$id patch$k: no demo .rs found"; continue; }
    grep -q "^$id patch$k:" /tmp/wt/confirm.log 2>/dev/null && continue
    crate=$(grep -o -m1 -E "(dom|xpath|info|parser|nom)/tests" $out/README.md | head -1 | cut -d/ -f1); [ -z "$crate" ] && crate=xpath
    r=$(/verif/tools/confirm_mutant.sh $patch $demo $crate 2>&1 | grep RESULT)
    echo "$id patch$k: crate=$crate $r" >> /tmp/wt/confirm.log
  done
done
