#!/bin/bash
# seedtest.sh <patch.diff> <tier> <PROP>...   apply a seeded change to /repo, run the named checks, undo it
set -u
PATCH=$(readlink -f "$1"); TIER=$2; shift 2
cd /repo && [ -z "$(git status --porcelain)" ] || { echo "/repo not clean"; exit 2; }
git apply "$PATCH" || { echo "patch does not apply"; exit 2; }
# evidence files are rewritten by every run: keep the ones of the unchanged tree
EVBAK=$(mktemp -d); cp -a /verif/evidence/. $EVBAK/
cd /verif
for p in "$@"; do
  out=$(./check $p --tier $TIER 2>&1); rc=$?
  echo "== $p exit=$rc"; echo "$out" | grep -E "violation signature|^VIOLATION|BROKEN|^$p " | cut -c1-400 | head -8
done
cp -a $EVBAK/. /verif/evidence/; rm -rf $EVBAK
git -C /repo checkout -- . ; git -C /repo status --porcelain | head -3
