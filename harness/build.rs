use std::process::Command;
fn main() {
    let out = std::env::var("OUT_DIR").unwrap();
    let src = "../refshim/refxml.c";
    println!("cargo:rerun-if-changed={}", src);
    let cflags = Command::new("pkg-config").args(["--cflags", "libxml-2.0"]).output()
        .map(|o| String::from_utf8_lossy(&o.stdout).to_string()).unwrap_or_else(|_| "-I/usr/include/libxml2".into());
    let obj = format!("{}/refxml.o", out);
    let mut cc = Command::new("cc");
    cc.args(["-c", "-O1", "-fPIC", "-w"]);
    for f in cflags.split_whitespace() { cc.arg(f); }
    cc.args([src, "-o", &obj]);
    assert!(cc.status().expect("cc").success(), "compiling refxml.c failed");
    let lib = format!("{}/librefxml.a", out);
    let _ = std::fs::remove_file(&lib);
    assert!(Command::new("ar").args(["rcs", &lib, &obj]).status().expect("ar").success());
    println!("cargo:rustc-link-search=native={}", out);
    println!("cargo:rustc-link-lib=static=refxml");
    println!("cargo:rustc-link-lib=dylib=xml2");
    println!("cargo:rustc-link-lib=dylib=expat");
}
