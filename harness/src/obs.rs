//! Observation of an xml-rs document through its public API, rendered in the canonical dump
//! format shared with model.rs (expected) and refxml.c (libxml2).
use crate::model::DumpOpt;
use crate::util::{esc, esc_opt};
use xml_dom::{AsExpandedName, Attr, CharacterData, Document, DocumentType, Element, Entity, NamedNodeMap, Node, Notation, ProcessingInstruction};
use xml_info::{Document as InfoDocument, DocumentTypeDeclaration as InfoDtd, HasQName, ProcessingInstruction as InfoPI};

pub struct Parsed { pub doc: xml_dom::XmlDocument, pub rest: usize }

/// Parse with xml_dom (raw or merged-text view). Err(text) = the parser's error.
pub fn parse_dom(text: &str, merged: bool) -> Result<Parsed, String> {
    if merged {
        let ctx = xml_dom::Context::from_text_expanded(true);
        match xml_dom::XmlDocument::from_raw_with_context(text, ctx) { Ok((rest, doc)) => Ok(Parsed { doc, rest: rest.len() }), Err(e) => Err(format!("{:?}", e)) }
    } else {
        match xml_dom::XmlDocument::from_raw(text) { Ok((rest, doc)) => Ok(Parsed { doc, rest: rest.len() }), Err(e) => Err(format!("{:?}", e)) }
    }
}

fn prefix_of(n: &xml_dom::XmlNode) -> Result<(Option<String>, Option<String>), String> {
    match n.as_expanded_name().map_err(|e| format!("as_expanded_name: {:?}", e))? {
        Some((_, p, uri)) => Ok((match p { Some(p) if p == "xmlns" => None, o => o }, uri)),
        None => Ok((None, None)),
    }
}

pub struct Walker { pub opt: DumpOpt, pub out: String, pub budget: usize }

impl Walker {
    fn elem(&mut self, e: &xml_dom::XmlElement, depth: usize) -> Result<(), String> {
        if self.budget == 0 { return Err("walk budget exhausted (cycle?)".into()); }
        self.budget -= 1;
        let node = xml_dom::AsNode::as_node(e);
        let (prefix, uri) = prefix_of(&node)?;
        if self.opt.ns { self.out.push_str(&format!("E {} {} {} {}\n", depth, esc_opt(prefix.as_deref()), esc(&e.tag_name()), esc_opt(uri.as_deref()))); }
        else { self.out.push_str(&format!("E {} {} {}\n", depth, esc_opt(prefix.as_deref()), esc(&e.tag_name()))); }
        let mut lines: Vec<(String, String, String)> = vec![];
        if let Some(attrs) = e.attributes() {
            for a in attrs.iter() {
                let an = xml_dom::AsNode::as_node(&a);
                let (ap, auri) = prefix_of(&an)?;
                // XPath/Infoset: an unprefixed attribute has no namespace name. (What xml-rs reports for it is
                // observed under C10, not here: only report the URI of prefixed attributes.)
                let val = a.value().map_err(|e| format!("Attr::value: {:?}", e))?;
                let mut s = format!("A {} {} {}", depth + 1, esc_opt(ap.as_deref()), esc(&a.name()));
                if self.opt.ns { s.push(' '); s.push_str(&esc_opt(auri.as_deref())); }
                s.push(' '); s.push_str(&esc(&val));
                if self.opt.specified { s.push_str(if a.specified() { " S" } else { " D" }); }
                s.push('\n');
                lines.push((ap.unwrap_or_default(), a.name(), s));
            }
        }
        lines.sort();
        for l in lines { self.out.push_str(&l.2); }
        if self.opt.ns {
            let mut ns: Vec<(String, String)> = vec![];
            for n in e.in_scope_namespace().map_err(|e| format!("in_scope_namespace: {:?}", e))? {
                let p = n.node_name();
                let p = if p == "xmlns" { None } else { Some(p) };
                if p.as_deref() == Some("xml") { continue; }
                let u = n.node_value().map_err(|e| format!("{:?}", e))?.unwrap_or_default();
                ns.push((p.clone().unwrap_or_default(), format!("I {} {} {}\n", depth + 1, esc_opt(p.as_deref()), esc(&u))));
            }
            ns.sort();
            for l in ns { self.out.push_str(&l.1); }
        }
        for c in e.child_nodes().iter() { self.node(&c, depth + 1)?; }
        Ok(())
    }

    pub fn node(&mut self, n: &xml_dom::XmlNode, depth: usize) -> Result<(), String> {
        if self.budget == 0 { return Err("walk budget exhausted (cycle?)".into()); }
        self.budget -= 1;
        match n {
            xml_dom::XmlNode::Element(e) => self.elem(e, depth)?,
            xml_dom::XmlNode::Text(t) => { let d = t.data().map_err(|e| format!("{:?}", e))?; self.out.push_str(&format!("X {} {}\n", depth, esc(&d))); }
            xml_dom::XmlNode::ExpandedText(t) => { let d = t.data().map_err(|e| format!("ExpandedText::data: {:?}", e))?; if !d.is_empty() { self.out.push_str(&format!("X {} {}\n", depth, esc(&d))); } }
            xml_dom::XmlNode::CData(t) => { let d = t.data().map_err(|e| format!("{:?}", e))?; self.out.push_str(&format!("K {} {}\n", depth, esc(&d))); }
            xml_dom::XmlNode::EntityReference(r) => { let v = r.value().map_err(|e| format!("EntityReference::value: {:?}", e))?; self.out.push_str(&format!("R {} {} {}\n", depth, esc(&r.node_name()), esc(&v))); }
            xml_dom::XmlNode::Comment(c) => { let d = c.data().map_err(|e| format!("{:?}", e))?; self.out.push_str(&format!("C {} {}\n", depth, esc(&d))); }
            xml_dom::XmlNode::PI(p) => self.out.push_str(&format!("P {} {} {}\n", depth, esc(&p.target()), esc(&p.data()))),
            xml_dom::XmlNode::DocumentType(_) => {}
            other => return Err(format!("unexpected node kind in tree: {:?}", other.node_type())),
        }
        Ok(())
    }
}

/// Canonical dump of an already parsed xml-rs document (tree part only; prolog lines need the text).
pub fn dump_tree(doc: &xml_dom::XmlDocument, opt: DumpOpt) -> Result<String, String> {
    let mut w = Walker { opt, out: String::new(), budget: 200_000 };
    for c in doc.child_nodes().iter() { w.node(&c, 0)?; }
    Ok(w.out)
}

pub struct XmlRsObs { pub dump: String, pub rest: usize }

/// Parse `text` with xml-rs and produce the full canonical dump. Err = parser error (rejected).
pub fn dump_xmlrs(text: &str, opt: DumpOpt) -> Result<XmlRsObs, String> {
    let parsed = parse_dom(text, opt.merged)?;
    let mut out = String::new();
    let mut pro = String::new();
    if opt.prolog {
        // info-level view for what xml_dom has no accessor for
        let (_, tree) = xml_parser::document(text).map_err(|e| format!("{:?}", e))?;
        let idoc = xml_info::XmlDocument::new(&tree).map_err(|e| format!("{:?}", e))?;
        let idoc = idoc.borrow();
        out.push_str(&format!("D {} {} {}\n", esc_opt(idoc.version()),
            if idoc.character_encoding_scheme().is_empty() { "~".to_string() } else { esc(idoc.character_encoding_scheme()) },
            match idoc.standalone() { Some(true) => "yes", Some(false) => "no", None => "~" }));
        if let Some(dt) = idoc.document_declaration() {
            let dt = dt.borrow();
            let name = match dt.prefix() { Some(p) => format!("{}:{}", p, dt.local_name()), None => dt.local_name().to_string() };
            pro.push_str(&format!("T 0 {} {} {}\n", esc(&name), esc_opt(dt.public_identifier()), esc_opt(dt.system_identifier())));
            // notations / unparsed entities through xml_dom
            if let Some(ddt) = parsed.doc.doc_type() {
                let mut nots: Vec<String> = vec![];
                for n in ddt.notations().iter() { nots.push(format!("O {} {} {}\n", esc(&n.node_name()), esc_opt(n.public_id().as_deref()), esc_opt(n.system_id().as_deref()))); }
                nots.sort();
                let mut unp: Vec<String> = vec![];
                for e in ddt.entities().iter() { if let Some(nd) = e.notation_name() { unp.push(format!("U {} {} {} {}\n", esc(&e.node_name()), esc_opt(e.public_id().as_deref()), esc(&e.system_id().unwrap_or_default()), esc(&nd))); } }
                unp.sort();
                // the Infoset view must agree with the DOM view
                let mut inots: Vec<String> = vec![];
                if let Some(ns) = idoc.notations() { for n in ns.iter() { let n = n.borrow(); inots.push(format!("O {} {} {}\n", esc(xml_info::Notation::name(&*n)), esc_opt(xml_info::Notation::public_identifier(&*n)), esc_opt(xml_info::Notation::system_identifier(&*n)))); } }
                inots.sort();
                let mut iunp: Vec<String> = vec![];
                for u in idoc.unparsed_entities().iter() { let u = u.borrow(); iunp.push(format!("U {} {} {} {}\n", esc(xml_info::UnparsedEntity::name(&*u)), esc_opt(xml_info::UnparsedEntity::public_identifier(&*u)), esc(xml_info::UnparsedEntity::system_identifier(&*u)), esc(xml_info::UnparsedEntity::notation_name(&*u)))); }
                iunp.sort();
                if inots != nots || iunp != unp { return Ok(XmlRsObs { dump: format!("INFO/DOM DISAGREE\n{:?}\n{:?}\n{:?}\n{:?}\n", nots, inots, unp, iunp), rest: parsed.rest }); }
                for l in nots { pro.push_str(&l); }
                for l in unp { pro.push_str(&l); }
            }
            for p in dt.children().iter() { let p = p.borrow(); pro.push_str(&format!("P 1 {} {}\n", esc(p.target()), esc(p.content()))); }
        }
    }
    // tree: document children in order; the doctype lines go where the doctype node is
    let mut w = Walker { opt, out: String::new(), budget: 200_000 };
    for c in parsed.doc.child_nodes().iter() {
        if let xml_dom::XmlNode::DocumentType(_) = c { w.out.push_str(&pro); continue; }
        w.node(&c, 0)?;
    }
    out.push_str(&w.out);
    Ok(XmlRsObs { dump: out, rest: parsed.rest })
}
