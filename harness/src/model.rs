//! DocModel: abstract XML documents (O1, truth by construction), generator, renderer and
//! the expected canonical observation ("dump") in the raw and merged views.
use crate::rng::Rng;
use crate::util::{esc, esc_opt};
use std::collections::BTreeMap;

#[derive(Clone, Debug, PartialEq)]
pub enum Misc { Comment(String), PI(String, Option<String>) }

#[derive(Clone, Debug, PartialEq)]
pub enum APiece { Text(String), CharRef(char, bool), EntRef(String) }

#[derive(Clone, Debug, PartialEq)]
pub struct Attr { pub prefix: Option<String>, pub local: String, pub value: Vec<APiece> }

#[derive(Clone, Debug, PartialEq)]
pub enum Node {
    Elem(Elem),
    Text(String),
    CData(String),
    CharRef(char, bool),
    EntRef(String),
    Comment(String),
    PI(String, Option<String>),
}

#[derive(Clone, Debug, PartialEq, Default)]
pub struct Elem {
    pub prefix: Option<String>,
    pub local: String,
    /// namespace declarations: (prefix or None for default, uri)
    pub nsdecls: Vec<(Option<String>, String)>,
    pub attrs: Vec<Attr>,
    pub children: Vec<Node>,
}

#[derive(Clone, Debug, PartialEq)]
pub enum AttType { CData, Id, IdRef, IdRefs, Entity, Entities, NmToken, NmTokens, Notation(Vec<String>), Enum(Vec<String>) }

#[derive(Clone, Debug, PartialEq)]
pub enum AttDefault { Required, Implied, Value(bool, Vec<APiece>) }

#[derive(Clone, Debug, PartialEq)]
pub struct AttDef { pub prefix: Option<String>, pub local: String, pub ty: AttType, pub default: AttDefault }

#[derive(Clone, Debug, PartialEq)]
pub enum Decl {
    Entity(String, Vec<APiece>),
    ExtEntity(String, Option<String>, String, Option<String>), // name, pubid, sysid, ndata
    Notation(String, Option<String>, Option<String>),           // name, pubid, sysid
    Attlist(Option<String>, String, Vec<AttDef>),
    Element(String, String),
    Comment(String),
    PI(String, Option<String>),
}

#[derive(Clone, Debug, PartialEq)]
pub struct Doctype {
    pub prefix: Option<String>,
    pub name: String,
    pub pubid: Option<String>,
    pub sysid: Option<String>,
    pub subset: Option<Vec<Decl>>,
}

#[derive(Clone, Debug, PartialEq)]
pub struct XmlDecl { pub version: String, pub encoding: Option<String>, pub standalone: Option<bool> }

#[derive(Clone, Debug, PartialEq)]
pub struct Doc {
    pub decl: Option<XmlDecl>,
    pub pre: Vec<Misc>,
    pub doctype: Option<Doctype>,
    pub mid: Vec<Misc>,
    pub root: Elem,
    pub post: Vec<Misc>,
}

pub const XML_NS: &str = "http://www.w3.org/XML/1998/namespace";

// ------------------------------------------------------------------------------------------------
// generator configuration

#[derive(Clone, Debug)]
pub struct GenCfg {
    pub max_depth: usize,
    pub max_children: usize,
    pub max_attrs: usize,
    pub max_nodes: usize,
    pub prolog: bool,
    pub dtd: bool,
    pub entities: bool,
    pub attlists: bool,
    /// attlists may declare attributes of elements that occur (defaults/types take effect)
    pub attlist_effective: bool,
    pub namespaces: bool,
    pub cdata: bool,
    pub refs: bool,
    pub comments: bool,
    pub pis: bool,
    pub nonascii: bool,
    /// white space (TAB/LF) inside entity values
    pub entity_ws: bool,
    /// literal CR in text / attribute values
    pub literal_cr: bool,
    /// empty CDATA sections, empty comments
    pub empties: bool,
    /// text directly adjacent to other text-like nodes (raw view has several nodes for one run)
    pub adjacent_text: bool,
    pub ws_only_text: bool,
}

impl GenCfg {
    pub fn full() -> GenCfg {
        GenCfg {
            max_depth: 4, max_children: 4, max_attrs: 3, max_nodes: 40, prolog: true, dtd: true, entities: true,
            attlists: true, attlist_effective: false, namespaces: true, cdata: true, refs: true, comments: true,
            pis: true, nonascii: true, entity_ws: true, literal_cr: false, empties: true, adjacent_text: true,
            ws_only_text: true,
        }
    }
    /// documents for XPath work: modest size, everything that XPath can see
    pub fn xpath() -> GenCfg {
        GenCfg { max_depth: 4, max_children: 4, max_attrs: 2, max_nodes: 30, empties: false, ..GenCfg::full() }
    }
    pub fn plain() -> GenCfg {
        GenCfg { dtd: false, entities: false, attlists: false, namespaces: false, prolog: false, ..GenCfg::full() }
    }
}

pub const ASCII_NAMES: &[&str] = &["a", "b", "c", "d", "item", "x1", "a-b", "a.b", "_u", "n", "X", "lang"];
pub const NONASCII_NAMES: &[&str] = &["\u{e9}", "\u{540d}", "a\u{b7}b", "a\u{300}", "\u{2fef}", "\u{2c00}x", "\u{10000}", "\u{37f}", "k\u{203f}"];
pub const PREFIXES: &[&str] = &["p", "q", "r"];
pub const URIS: &[&str] = &["urn:a", "urn:b", "http://e/x", "urn:c"];
pub const PI_TARGETS: &[&str] = &["pi", "x", "xm", "target", "xml-stylesheet", "Xm", "p.i", "xmlx"];
const TEXT_CHARS: &[&str] = &["a", "b", "c", "1", "2", " ", " ", "\n", "\t", "]", ">", "'", "\"", "\u{e9}", "\u{1d4b3}", ";", "#", "=", "-", "?", "!", "/", "x"];
const ENT_NAMES: &[&str] = &["e1", "e2", "e3", "ent", "E"];

fn gen_name(r: &mut Rng, cfg: &GenCfg) -> String {
    if cfg.nonascii && r.chance(1, 8) { r.pick_s(NONASCII_NAMES).to_string() } else { r.pick_s(ASCII_NAMES).to_string() }
}

/// text usable literally in content: no '<', '&', no "]]>"
pub fn gen_text(r: &mut Rng, cfg: &GenCfg, min: usize, max: usize) -> String {
    let n = r.range(min, max);
    let mut s = String::new();
    for _ in 0..n {
        let c = r.pick_s(TEXT_CHARS);
        s.push_str(c);
    }
    if cfg.literal_cr && r.chance(1, 6) { s.push('\r'); if r.chance(1, 2) { s.push('\n'); } s.push('z'); }
    while s.contains("]]>") { s = s.replace("]]>", "]] >"); }
    s
}

fn gen_comment_text(r: &mut Rng, cfg: &GenCfg) -> String {
    let lo = if cfg.empties { 0 } else { 1 };
    let mut s = gen_text(r, cfg, lo, 5);
    if r.chance(1, 4) { s.push_str("<&"); }
    while s.contains("--") { s = s.replace("--", "- -"); }
    if s.ends_with('-') { s.push(' '); }
    s
}

fn gen_pi(r: &mut Rng, cfg: &GenCfg) -> (String, Option<String>) {
    let t = r.pick_s(PI_TARGETS).to_string();
    let d = match r.below(4) {
        0 => None,
        _ => {
            let mut s = gen_text(r, cfg, 0, 5);
            if r.chance(1, 4) { s.push_str("<&"); }
            // leading white space of PI data is not part of the data
            let s = s.trim_start_matches(|c| c == ' ' || c == '\n' || c == '\t' || c == '\r').to_string();
            let s = s.replace("?>", "? >");
            Some(s)
        }
    };
    (t, d)
}

fn gen_misc(r: &mut Rng, cfg: &GenCfg, out: &mut Vec<Misc>) {
    let n = r.below(3);
    for _ in 0..n {
        if cfg.comments && r.chance(1, 2) { out.push(Misc::Comment(gen_comment_text(r, cfg))); }
        else if cfg.pis { let (t, d) = gen_pi(r, cfg); out.push(Misc::PI(t, d)); }
    }
}

struct Scope { bindings: Vec<(Option<String>, String)> }
impl Scope {
    fn lookup(&self, p: Option<&str>) -> Option<&str> {
        for (k, v) in self.bindings.iter().rev() { if k.as_deref() == p { return if v.is_empty() { None } else { Some(v.as_str()) }; } }
        None
    }
    fn bound_prefixes(&self) -> Vec<String> {
        let mut v: Vec<String> = vec![];
        for (k, _) in self.bindings.iter() { if let Some(k) = k { if !v.contains(k) { v.push(k.clone()); } } }
        v.retain(|p| self.lookup(Some(p)).is_some());
        v
    }
}

pub struct Gen<'a> { pub r: &'a mut Rng, pub cfg: GenCfg, nodes: usize, entities: Vec<String> }

impl<'a> Gen<'a> {
    pub fn new(r: &'a mut Rng, cfg: GenCfg) -> Gen<'a> { Gen { r, cfg, nodes: 0, entities: vec![] } }

    fn apieces(&mut self, in_entity: bool, allow_refs: bool) -> Vec<APiece> {
        let n = self.r.below(4);
        let mut v = vec![];
        for _ in 0..n {
            match self.r.below(6) {
                0 | 1 | 2 => {
                    let mut t = gen_text(self.r, &self.cfg, 1, 4);
                    if in_entity && !self.cfg.entity_ws { t = t.replace(['\n', '\t', '\r'], " "); }
                    if in_entity { t = t.replace('%', "p"); }
                    v.push(APiece::Text(t));
                }
                3 if self.cfg.refs => {
                    let c = *self.r.pick(&['a', ' ', '\u{e9}', '\u{1d4b3}', '"', '\'', '>', '\t', '\n', 'Z', '\r']);
                    let c = if in_entity && !self.cfg.entity_ws && (c == '\t' || c == '\n' || c == '\r') { 'y' } else { c };
                    v.push(APiece::CharRef(c, self.r.chance(1, 2)));
                }
                4 if self.cfg.refs && allow_refs => {
                    let pre = ["lt", "gt", "amp", "apos", "quot"];
                    if !self.entities.is_empty() && self.r.chance(1, 2) {
                        let e = self.r.pick(&self.entities).clone();
                        v.push(APiece::EntRef(e));
                    } else if !in_entity {
                        v.push(APiece::EntRef(self.r.pick(&pre).to_string()));
                    } else {
                        v.push(APiece::EntRef(self.r.pick_s(&["gt", "apos", "quot"]).to_string()));
                    }
                }
                5 if in_entity && self.cfg.refs && allow_refs && self.r.chance(1, 2) => {
                    // a reference spelled through &#38;: recognised when the replacement text is included (4.4.2, appendix D)
                    let own = if !self.entities.is_empty() && self.r.chance(1, 3) { Some(self.r.pick(&self.entities).clone()) } else { None };
                    let r = match own { Some(e) => format!("{};", e), None => self.r.pick_s(&["#60;", "#38;", "#x3E;", "amp;", "lt;", "apos;", "#233;"]).to_string() };
                    v.push(APiece::CharRef('&', self.r.chance(1, 2)));
                    v.push(APiece::Text(r));
                }
                _ => v.push(APiece::Text(gen_text(self.r, &self.cfg, 1, 2).replace(['\n', '\t', '\r'], "w"))),
            }
        }
        v
    }

    fn content_spec(&mut self, depth: usize) -> String {
        match self.r.below(5) {
            0 => "EMPTY".into(),
            1 => "ANY".into(),
            2 => if self.r.chance(1, 2) { "(#PCDATA)".into() } else { format!("(#PCDATA|{}|{})*", self.r.pick_s(ASCII_NAMES), self.r.pick_s(ASCII_NAMES)) },
            _ => { let s = self.cp_group(depth); let q = self.r.pick_s(&["", "?", "*", "+"]); format!("{}{}", s, q) }
        }
    }
    fn cp_group(&mut self, depth: usize) -> String {
        let n = self.r.range(1, 3);
        let sep = if n > 1 && self.r.chance(1, 2) { "|" } else { "," };
        let mut parts = vec![];
        for _ in 0..n {
            if depth > 0 && self.r.chance(1, 3) { let g = self.cp_group(depth - 1); parts.push(format!("{}{}", g, self.r.pick_s(&["", "?", "*", "+"]))); }
            else { parts.push(format!("{}{}", self.r.pick_s(ASCII_NAMES), self.r.pick_s(&["", "?", "*", "+"]))); }
        }
        let ws = if self.r.chance(1, 3) { " " } else { "" };
        format!("({}{}{})", ws, parts.join(&format!("{}{}{}", ws, sep, ws)), ws)
    }

    fn doctype(&mut self, root: &Elem) -> Doctype {
        let (pubid, sysid) = match self.r.below(4) {
            0 => (None, Some(self.r.pick_s(&["a.dtd", "http://e/d'x", "", "x\"y"]).to_string())),
            1 => (Some(self.r.pick_s(&["-//A//B", "", "pub id (1)"]).to_string()), Some("s.dtd".to_string())),
            _ => (None, None),
        };
        let mut decls = vec![];
        let has_subset = self.r.chance(3, 4);
        if has_subset {
            let n = self.r.below(6);
            let mut notations: Vec<String> = vec![];
            for _ in 0..n {
                match self.r.below(8) {
                    0 | 1 if self.cfg.entities => {
                        let name = self.r.pick_s(ENT_NAMES).to_string();
                        let mut val = self.apieces(true, true);
                        // replacement text that contains "]]>" may only be referenced from attribute values (it is not character
                        // data); the generator references entities anywhere, so such values are not produced here (C02 has them)
                        if Entities::replacement_text(&val).contains("]]>") { val = vec![APiece::Text("v]]".to_string())]; }
                        if !self.entities.contains(&name) {
                            decls.push(Decl::Entity(name.clone(), val));
                            self.entities.push(name);
                        } else if self.r.chance(1, 2) {
                            // a second declaration of the same entity: the first one binds (4.2), this one is only printed
                            decls.push(Decl::Entity(name.clone(), val));
                        }
                    }
                    2 => {
                        let name = format!("n{}", notations.len());
                        let (p, s) = match self.r.below(3) { 0 => (Some("-//N".to_string()), None), 1 => (None, Some("n.bin".to_string())), _ => (Some("P".to_string()), Some("s'q".to_string())) };
                        decls.push(Decl::Notation(name.clone(), p, s));
                        notations.push(name);
                    }
                    3 if self.cfg.entities => {
                        let name = format!("u{}", decls.len());
                        let nd = if !notations.is_empty() && self.r.chance(2, 3) { Some(self.r.pick(&notations).clone()) } else { None };
                        let p = if self.r.chance(1, 2) { Some("-//U".to_string()) } else { None };
                        decls.push(Decl::ExtEntity(name, p, "u.bin".to_string(), nd));
                    }
                    4 if self.cfg.attlists => {
                        // an attribute list for an element that does not occur (parse-only) or, when effective,
                        // for the root element
                        let (ep, el) = if self.cfg.attlist_effective && self.r.chance(1, 2) { (root.prefix.clone(), root.local.clone()) } else { (None, "zz-unused".to_string()) };
                        let k = self.r.range(0, 3);
                        let mut defs = vec![];
                        for i in 0..k {
                            let ty = match self.r.below(10) {
                                0 => AttType::Id, 1 => AttType::IdRef, 2 => AttType::IdRefs, 3 => AttType::Entity, 4 => AttType::Entities,
                                5 => AttType::NmToken, 6 => AttType::NmTokens, 7 => AttType::Enum(vec!["v1".into(), "v-2".into()]),
                                8 => if notations.is_empty() { AttType::CData } else { AttType::Notation(notations.clone()) },
                                _ => AttType::CData,
                            };
                            let default = match self.r.below(4) { 0 => AttDefault::Required, 1 => AttDefault::Implied, 2 => AttDefault::Value(true, vec![APiece::Text("v1".into())]), _ => AttDefault::Value(false, vec![APiece::Text("v1".into())]) };
                            defs.push(AttDef { prefix: None, local: format!("da{}", i), ty, default });
                        }
                        decls.push(Decl::Attlist(ep, el, defs));
                    }
                    5 => { let nm = self.r.pick_s(ASCII_NAMES).to_string(); let sp = self.content_spec(2); decls.push(Decl::Element(nm, sp)); }
                    6 if self.cfg.comments => decls.push(Decl::Comment(gen_comment_text(self.r, &self.cfg))),
                    7 if self.cfg.pis => { let (t, d) = gen_pi(self.r, &self.cfg); decls.push(Decl::PI(t, d)); }
                    _ => {}
                }
            }
        }
        Doctype { prefix: root.prefix.clone(), name: root.local.clone(), pubid, sysid, subset: if has_subset { Some(decls) } else { None } }
    }

    fn elem(&mut self, depth: usize, scope: &mut Scope) -> Elem {
        self.nodes += 1;
        let mark = scope.bindings.len();
        let mut e = Elem::default();
        if self.cfg.namespaces {
            let k = self.r.weighted(&[6, 3, 1]);
            for _ in 0..k {
                if self.r.chance(1, 3) {
                    // default namespace (possibly undeclaring)
                    if !e.nsdecls.iter().any(|d| d.0.is_none()) {
                        let uri = if self.r.chance(1, 4) { String::new() } else { self.r.pick_s(URIS).to_string() };
                        e.nsdecls.push((None, uri.clone()));
                        scope.bindings.push((None, uri));
                    }
                } else {
                    let p = self.r.pick_s(PREFIXES).to_string();
                    if !e.nsdecls.iter().any(|d| d.0.as_deref() == Some(p.as_str())) {
                        let uri = self.r.pick_s(URIS).to_string();
                        e.nsdecls.push((Some(p.clone()), uri.clone()));
                        scope.bindings.push((Some(p), uri));
                    }
                }
            }
        }
        e.local = gen_name(self.r, &self.cfg);
        let bound = scope.bound_prefixes();
        if self.cfg.namespaces && !bound.is_empty() && self.r.chance(1, 3) { e.prefix = Some(self.r.pick(&bound).clone()); }
        // attributes
        let na = self.r.below(self.cfg.max_attrs + 1);
        let mut seen: Vec<(Option<String>, String)> = vec![];
        let mut seen_exp: Vec<(Option<String>, String)> = vec![];
        for _ in 0..na {
            // now and then a name that merely begins like a namespace declaration (it is an ordinary attribute)
            let local = if self.r.chance(1, 40) { self.r.pick_s(&["xmlnsfoo", "xmlns.a", "xmlns-", "xmlnsx1"]).to_string() } else { gen_name(self.r, &self.cfg) };
            if local == "xmlns" { continue; }
            let mut prefix = None;
            if self.cfg.namespaces {
                if !bound.is_empty() && self.r.chance(1, 4) { prefix = Some(self.r.pick(&bound).clone()); }
                else if self.r.chance(1, 12) { prefix = Some("xml".to_string()); }
            }
            // "p:xmlns" is an ordinary attribute of p's namespace
            let local = if prefix.is_some() && prefix.as_deref() != Some("xml") && self.r.chance(1, 30) { "xmlns".to_string() } else { local };
            let uri = match prefix.as_deref() { None => None, Some("xml") => Some(XML_NS.to_string()), Some(p) => scope.lookup(Some(p)).map(|s| s.to_string()) };
            let key = (prefix.clone(), local.clone());
            let ekey = (uri, local.clone());
            if seen.contains(&key) || seen_exp.contains(&ekey) { continue; }
            seen.push(key); seen_exp.push(ekey);
            let mut value = self.apieces(false, true);
            // "]]>" is ordinary text inside an attribute value
            if self.r.chance(1, 25) { let at = self.r.below(value.len() + 1); value.insert(at, APiece::Text(self.r.pick_s(&["]]>", "a]]>b", "]]", "]]>]]>"]).to_string())); }
            e.attrs.push(Attr { prefix, local, value });
        }
        // xml:lang declarations, nested and shadowing (what lang() and inheritance of the language depend on)
        if self.cfg.namespaces && self.r.chance(1, 6) && !e.attrs.iter().any(|a| a.local == "lang") {
            let v = self.r.pick_s(&["en", "en-US", "de", "", "EN", "fr-CA", "e", "\u{65e5}\u{672c}\u{8a9e}", "fr-\u{e9}", "\u{e9}n", "e\u{1d4b3}"]).to_string();
            e.attrs.push(Attr { prefix: Some("xml".to_string()), local: "lang".to_string(), value: if v.is_empty() { vec![] } else { vec![APiece::Text(v)] } });
        }
        // children
        if depth < self.cfg.max_depth {
            let nc = self.r.below(self.cfg.max_children + 1);
            for _ in 0..nc {
                if self.nodes >= self.cfg.max_nodes { break; }
                let w = [5u32, 5, if self.cfg.cdata { 2 } else { 0 }, if self.cfg.refs { 2 } else { 0 }, if self.cfg.refs { 2 } else { 0 }, if self.cfg.comments { 2 } else { 0 }, if self.cfg.pis { 2 } else { 0 }];
                let k = self.r.weighted(&w);
                let prev_textish = matches!(e.children.last(), Some(Node::Text(_)) | Some(Node::CData(_)) | Some(Node::CharRef(..)) | Some(Node::EntRef(_)));
                if !self.cfg.adjacent_text && prev_textish && (1..=4).contains(&k) { continue; }
                match k {
                    0 => { let c = self.elem(depth + 1, scope); e.children.push(Node::Elem(c)); }
                    1 => {
                        if matches!(e.children.last(), Some(Node::Text(_))) { continue; }
                        let t = if self.cfg.ws_only_text && self.r.chance(1, 6) { self.r.pick_s(&[" ", "\n", "\n  ", "\t"]).to_string() } else { gen_text(self.r, &self.cfg, 1, 6) };
                        self.nodes += 1;
                        e.children.push(Node::Text(t));
                    }
                    2 => {
                        let lo = if self.cfg.empties { 0 } else { 1 };
                        let mut t = gen_text(self.r, &self.cfg, lo, 5);
                        if self.r.chance(1, 2) { t.push_str(self.r.pick_s(&["<", "&", "<a>", "&amp;", "]]", "<!--"])); }
                        self.nodes += 1;
                        e.children.push(Node::CData(t));
                    }
                    3 => { let c = *self.r.pick(&['a', '<', '&', ' ', '\n', '\u{e9}', '\u{1d4b3}', '>', ']', '\t', '\r']); self.nodes += 1; e.children.push(Node::CharRef(c, self.r.chance(1, 2))); }
                    4 => {
                        let name = if !self.entities.is_empty() && self.r.chance(1, 2) { self.r.pick(&self.entities).clone() } else { self.r.pick_s(&["lt", "gt", "amp", "apos", "quot"]).to_string() };
                        self.nodes += 1;
                        e.children.push(Node::EntRef(name));
                    }
                    5 => { self.nodes += 1; e.children.push(Node::Comment(gen_comment_text(self.r, &self.cfg))); }
                    _ => { let (t, d) = gen_pi(self.r, &self.cfg); self.nodes += 1; e.children.push(Node::PI(t, d)); }
                }
            }
        }
        scope.bindings.truncate(mark);
        e
    }

    pub fn doc(&mut self) -> Doc {
        self.nodes = 0;
        self.entities.clear();
        let mut scope = Scope { bindings: vec![] };
        // decide the doctype first so that entity names are known while generating content
        let want_dtd = self.cfg.dtd && self.r.chance(1, 2);
        let mut doctype = None;
        let mut root_stub = Elem::default();
        if want_dtd {
            // the root's name must be fixed before the doctype is rendered
            let mut sc2 = Scope { bindings: vec![] };
            let save = (self.cfg.max_depth, self.cfg.max_attrs);
            self.cfg.max_depth = 0; self.cfg.max_attrs = 0;
            root_stub = self.elem(0, &mut sc2);
            self.cfg.max_depth = save.0; self.cfg.max_attrs = save.1;
            root_stub.nsdecls.clear(); root_stub.prefix = None;
            doctype = Some(self.doctype(&root_stub));
        }
        let mut root = self.elem(0, &mut scope);
        if want_dtd {
            // keep the doctype name equal to the root's name (not required for WF, but conventional)
            if self.r.chance(3, 4) { if let Some(d) = doctype.as_mut() { d.name = root.local.clone(); d.prefix = root.prefix.clone(); } }
            if self.cfg.attlist_effective {
                if let Some(d) = doctype.as_mut() { if let Some(ds) = d.subset.as_mut() { for dc in ds.iter_mut() { if let Decl::Attlist(p, l, _) = dc { if l == &root_stub.local { *p = root.prefix.clone(); *l = root.local.clone(); } } } } }
            }
        }
        let _ = &mut root;
        let decl = if self.cfg.prolog && self.r.chance(1, 2) {
            Some(XmlDecl {
                version: self.r.pick_s(&["1.0", "1.0", "1.1", "1.23"]).to_string(),
                encoding: if self.r.chance(1, 2) { Some(self.r.pick_s(&["UTF-8", "utf-8"]).to_string()) } else { None },
                standalone: match self.r.below(3) { 0 => Some(true), 1 => Some(false), _ => None },
            })
        } else { None };
        let mut pre = vec![]; let mut mid = vec![]; let mut post = vec![];
        if self.cfg.prolog { gen_misc(self.r, &self.cfg, &mut pre); if doctype.is_some() { gen_misc(self.r, &self.cfg, &mut mid); } gen_misc(self.r, &self.cfg, &mut post); }
        Doc { decl, pre, doctype, mid, root, post }
    }
}

// ------------------------------------------------------------------------------------------------
// entity table / expansion (O2: XML 1.0 4.4, 4.5, 3.3.3)

pub struct Entities { map: BTreeMap<String, Vec<APiece>> }

impl Entities {
    pub fn of(doc: &Doc) -> Entities {
        let mut map = BTreeMap::new();
        if let Some(dt) = &doc.doctype { if let Some(ds) = &dt.subset { for d in ds { if let Decl::Entity(n, v) = d { map.entry(n.clone()).or_insert_with(|| v.clone()); } } } }
        Entities { map }
    }
    fn predefined(name: &str) -> Option<&'static str> {
        match name { "lt" => Some("<"), "gt" => Some(">"), "amp" => Some("&"), "apos" => Some("'"), "quot" => Some("\""), _ => None }
    }
    /// replacement text (4.5): character references of the literal replaced, general-entity references kept.
    /// The renderer spells '&', '<' and '%' of a text piece as references, so they are references here too.
    fn replacement_text(v: &[APiece]) -> String {
        let mut s = String::new();
        for p in v {
            match p {
                APiece::Text(t) => { for c in norm_eol(t).chars() { match c { '&' => s.push_str("&amp;"), '<' => s.push_str("&lt;"), c => s.push(c) } } }
                APiece::CharRef(c, _) => s.push(*c),
                APiece::EntRef(n) => { s.push('&'); s.push_str(n); s.push(';'); }
            }
        }
        s
    }
    /// inclusion (4.4.2, 4.4.5): the replacement text is scanned for references like text of the document
    fn include(&self, name: &str, attr: bool, depth: usize) -> String {
        let v = match self.map.get(name) { Some(v) => v, None => return Self::predefined(name).unwrap_or("").to_string() };
        if depth > 64 { return String::new(); }
        let rep = Self::replacement_text(v);
        let mut out = String::new();
        let mut rest = rep.as_str();
        while let Some(p) = rest.find('&') {
            let t = &rest[..p];
            if attr { out.push_str(&ws_to_space(t)); } else { out.push_str(t); }
            let tail = &rest[p + 1..];
            let end = match tail.find(';') { Some(e) => e, None => { out.push_str(&rest[p..]); rest = ""; break; } };
            let r = &tail[..end];
            if let Some(h) = r.strip_prefix("#x") { if let Some(c) = u32::from_str_radix(h, 16).ok().and_then(char::from_u32) { out.push(c); } }
            else if let Some(d) = r.strip_prefix('#') { if let Some(c) = d.parse::<u32>().ok().and_then(char::from_u32) { out.push(c); } }
            else { out.push_str(&self.include(r, attr, depth + 1)); }
            rest = &tail[end + 1..];
        }
        if attr { out.push_str(&ws_to_space(rest)); } else { out.push_str(rest); }
        out
    }
    /// value contributed by `&name;` in content (no white-space normalisation)
    pub fn content_value(&self, name: &str) -> String { self.include(name, false, 0) }
    /// value contributed by `&name;` inside an attribute value (3.3.3: white space of the replacement
    /// text, including characters that came from character references in the entity literal, -> #x20;
    /// a character reference met while the replacement text is included contributes its character unchanged)
    pub fn attr_value(&self, name: &str) -> String { self.include(name, true, 0) }
    /// does the replacement text (recursively) contain a character that came from a character
    /// reference to white space? (zone where libxml2 and the literal reading of 3.3.3 may differ)
    pub fn has_ws_charref(&self, name: &str) -> bool {
        match self.map.get(name) {
            Some(v) => v.iter().any(|p| match p { APiece::CharRef(c, _) => matches!(*c, '\t' | '\n' | '\r'), APiece::EntRef(n) => self.has_ws_charref(n), _ => false }),
            None => false,
        }
    }
}

/// 2.11 end-of-line handling
pub fn norm_eol(s: &str) -> String { s.replace("\r\n", "\n").replace('\r', "\n") }
pub fn ws_to_space(s: &str) -> String { s.chars().map(|c| if matches!(c, '\t' | '\n' | '\r') { ' ' } else { c }).collect() }

pub fn attr_normalized(v: &[APiece], ents: &Entities, cdata_type: bool) -> String {
    let mut s = String::new();
    for p in v {
        match p {
            APiece::Text(t) => s.push_str(&ws_to_space(&norm_eol(t))),
            APiece::CharRef(c, _) => s.push(*c),
            APiece::EntRef(n) => s.push_str(&ents.attr_value(n)),
        }
    }
    if !cdata_type { s = s.split(' ').filter(|x| !x.is_empty()).collect::<Vec<_>>().join(" "); }
    s
}

// ------------------------------------------------------------------------------------------------
// rendering

#[derive(Clone, Copy)]
pub struct Style { pub minimal: bool }

fn ws(r: &mut Rng, st: Style, required: bool) -> String {
    if st.minimal { return if required { " ".into() } else { String::new() }; }
    match r.below(if required { 4 } else { 6 }) {
        0 => " ".into(), 1 => "  ".into(), 2 => "\n".into(), 3 => "\t ".into(), _ => if required { " ".into() } else { String::new() },
    }
}

fn render_apieces(v: &[APiece], r: &mut Rng, st: Style, in_entity: bool) -> String {
    let mut has_dq = false; let mut has_sq = false;
    for p in v { if let APiece::Text(t) = p { has_dq |= t.contains('"'); has_sq |= t.contains('\''); } }
    let q = if has_dq && !has_sq { '\'' } else if has_sq && !has_dq { '"' } else if st.minimal { '"' } else if r.chance(1, 2) { '"' } else { '\'' };
    let mut s = String::new();
    s.push(q);
    for p in v {
        match p {
            APiece::Text(t) => {
                for c in t.chars() {
                    if c == q { s.push_str(if q == '"' { "&quot;" } else { "&apos;" }); }
                    else if c == '<' { s.push_str("&lt;"); }
                    else if c == '&' { s.push_str("&amp;"); }
                    else if c == '%' && in_entity { s.push_str("&#37;"); }
                    else { s.push(c); }
                }
            }
            APiece::CharRef(c, hex) => { if *hex { s.push_str(&format!("&#x{:X};", *c as u32)); } else { s.push_str(&format!("&#{};", *c as u32)); } }
            APiece::EntRef(n) => { s.push('&'); s.push_str(n); s.push(';'); }
        }
    }
    s.push(q);
    s
}

fn render_lit(s: &str, r: &mut Rng, st: Style) -> String {
    if s.contains('"') { format!("'{}'", s) } else if s.contains('\'') || st.minimal || r.chance(1, 2) { format!("\"{}\"", s) } else { format!("'{}'", s) }
}

fn qn(p: &Option<String>, l: &str) -> String { match p { Some(p) => format!("{}:{}", p, l), None => l.to_string() } }

/// token kinds of a rendering (used by the ill-formedness operators of C02 and for lexical context)
#[derive(Clone, Copy, PartialEq, Debug)]
pub enum TK { XmlDecl, Ws, Comment, PI, DoctypeOpen, SubsetOpen, DeclEntity, DeclNotation, DeclAttlist, DeclElement, SubsetClose, DoctypeClose, STagOpen, AttrWs, AttrName, AttrEq, AttrValue, TagWs, STagClose, EmptyClose, ETag, Text, CData, CharRef, EntRef }

#[derive(Clone, Debug)]
pub struct Tok { pub k: TK, pub s: String }

struct TokOut { v: Vec<Tok> }
impl TokOut {
    fn push(&mut self, k: TK, s: String) { if !s.is_empty() || k == TK::Text { self.v.push(Tok { k, s }); } }
}

fn t_misc(m: &Misc, out: &mut TokOut) {
    match m {
        Misc::Comment(c) => out.push(TK::Comment, format!("<!--{}-->", c)),
        Misc::PI(t, d) => out.push(TK::PI, pi_str(t, d)),
    }
}
fn pi_str(t: &str, d: &Option<String>) -> String {
    match d { Some(d) => format!("<?{} {}?>", t, d), None => format!("<?{}?>", t) }
}

fn t_elem(e: &Elem, r: &mut Rng, st: Style, out: &mut TokOut) {
    out.push(TK::STagOpen, format!("<{}", qn(&e.prefix, &e.local)));
    // attributes and namespace declarations in random order
    let mut items: Vec<(String, String, String)> = vec![];
    for (p, u) in &e.nsdecls {
        let n = match p { Some(p) => format!("xmlns:{}", p), None => "xmlns".to_string() };
        let eqs = format!("{}={}", ws(r, st, false), ws(r, st, false));
        items.push((n, eqs, render_apieces(&[APiece::Text(u.clone())], r, st, false)));
    }
    for a in &e.attrs {
        let eqs = format!("{}={}", ws(r, st, false), ws(r, st, false));
        items.push((qn(&a.prefix, &a.local), eqs, render_apieces(&a.value, r, st, false)));
    }
    if !st.minimal { r.shuffle(&mut items); }
    for it in items { out.push(TK::AttrWs, ws(r, st, true)); out.push(TK::AttrName, it.0); out.push(TK::AttrEq, it.1); out.push(TK::AttrValue, it.2); }
    out.push(TK::TagWs, ws(r, st, false));
    if e.children.is_empty() && (st.minimal || r.chance(1, 2)) { out.push(TK::EmptyClose, "/>".into()); return; }
    out.push(TK::STagClose, ">".into());
    for c in &e.children { t_node(c, r, st, out); }
    out.push(TK::ETag, format!("</{}{}>", qn(&e.prefix, &e.local), ws(r, st, false)));
}

fn t_node(n: &Node, r: &mut Rng, st: Style, out: &mut TokOut) {
    match n {
        Node::Elem(e) => t_elem(e, r, st, out),
        Node::Text(t) => out.push(TK::Text, t.clone()),
        Node::CData(t) => out.push(TK::CData, format!("<![CDATA[{}]]>", t)),
        Node::CharRef(c, hex) => out.push(TK::CharRef, if *hex { format!("&#x{:x};", *c as u32) } else { format!("&#{};", *c as u32) }),
        Node::EntRef(n) => out.push(TK::EntRef, format!("&{};", n)),
        Node::Comment(c) => out.push(TK::Comment, format!("<!--{}-->", c)),
        Node::PI(t, d) => out.push(TK::PI, pi_str(t, d)),
    }
}

fn render_ext(pubid: &Option<String>, sysid: &Option<String>, r: &mut Rng, st: Style, out: &mut String) {
    match (pubid, sysid) {
        (Some(p), Some(s)) => { out.push_str(&ws(r, st, true)); out.push_str("PUBLIC"); out.push_str(&ws(r, st, true)); out.push_str(&render_lit(p, r, st)); out.push_str(&ws(r, st, true)); out.push_str(&render_lit(s, r, st)); }
        (Some(p), None) => { out.push_str(&ws(r, st, true)); out.push_str("PUBLIC"); out.push_str(&ws(r, st, true)); out.push_str(&render_lit(p, r, st)); }
        (None, Some(s)) => { out.push_str(&ws(r, st, true)); out.push_str("SYSTEM"); out.push_str(&ws(r, st, true)); out.push_str(&render_lit(s, r, st)); }
        (None, None) => {}
    }
}

pub fn att_type_str(t: &AttType) -> String {
    match t {
        AttType::CData => "CDATA".into(), AttType::Id => "ID".into(), AttType::IdRef => "IDREF".into(), AttType::IdRefs => "IDREFS".into(),
        AttType::Entity => "ENTITY".into(), AttType::Entities => "ENTITIES".into(), AttType::NmToken => "NMTOKEN".into(), AttType::NmTokens => "NMTOKENS".into(),
        AttType::Notation(v) => format!("NOTATION ({})", v.join("|")), AttType::Enum(v) => format!("({})", v.join("|")),
    }
}

fn t_decl(d: &Decl, r: &mut Rng, st: Style, toks: &mut TokOut) {
    let mut out = String::new();
    let k;
    match d {
        Decl::Entity(n, v) => { k = TK::DeclEntity; out.push_str("<!ENTITY"); out.push_str(&ws(r, st, true)); out.push_str(n); out.push_str(&ws(r, st, true)); out.push_str(&render_apieces(v, r, st, true)); out.push_str(&ws(r, st, false)); out.push('>'); }
        Decl::ExtEntity(n, p, s, nd) => {
            k = TK::DeclEntity;
            out.push_str("<!ENTITY"); out.push_str(&ws(r, st, true)); out.push_str(n);
            render_ext(p, &Some(s.clone()), r, st, &mut out);
            if let Some(nd) = nd { out.push_str(&ws(r, st, true)); out.push_str("NDATA"); out.push_str(&ws(r, st, true)); out.push_str(nd); }
            out.push_str(&ws(r, st, false)); out.push('>');
        }
        Decl::Notation(n, p, s) => { k = TK::DeclNotation; out.push_str("<!NOTATION"); out.push_str(&ws(r, st, true)); out.push_str(n); render_ext(p, s, r, st, &mut out); out.push_str(&ws(r, st, false)); out.push('>'); }
        Decl::Attlist(ep, el, defs) => {
            k = TK::DeclAttlist;
            out.push_str("<!ATTLIST"); out.push_str(&ws(r, st, true)); out.push_str(&qn(ep, el));
            for d in defs {
                out.push_str(&ws(r, st, true)); out.push_str(&qn(&d.prefix, &d.local)); out.push_str(&ws(r, st, true)); out.push_str(&att_type_str(&d.ty)); out.push_str(&ws(r, st, true));
                match &d.default {
                    AttDefault::Required => out.push_str("#REQUIRED"), AttDefault::Implied => out.push_str("#IMPLIED"),
                    AttDefault::Value(fixed, v) => { if *fixed { out.push_str("#FIXED"); out.push_str(&ws(r, st, true)); } out.push_str(&render_apieces(v, r, st, false)); }
                }
            }
            out.push_str(&ws(r, st, false)); out.push('>');
        }
        Decl::Element(n, spec) => { k = TK::DeclElement; out.push_str("<!ELEMENT"); out.push_str(&ws(r, st, true)); out.push_str(n); out.push_str(&ws(r, st, true)); out.push_str(spec); out.push_str(&ws(r, st, false)); out.push('>'); }
        Decl::Comment(c) => { k = TK::Comment; out = format!("<!--{}-->", c); }
        Decl::PI(t, d) => { k = TK::PI; out = pi_str(t, d); }
    }
    toks.push(k, out);
}

pub fn render_tokens(doc: &Doc, r: &mut Rng, st: Style) -> Vec<Tok> {
    let mut toks = TokOut { v: vec![] };
    if let Some(d) = &doc.decl {
        let mut out = String::new();
        out.push_str("<?xml"); out.push_str(&ws(r, st, true)); out.push_str("version"); out.push_str(&ws(r, st, false)); out.push('='); out.push_str(&ws(r, st, false)); out.push_str(&render_lit(&d.version, r, st));
        if let Some(e) = &d.encoding { out.push_str(&ws(r, st, true)); out.push_str("encoding"); out.push_str(&ws(r, st, false)); out.push('='); out.push_str(&ws(r, st, false)); out.push_str(&render_lit(e, r, st)); }
        if let Some(s) = d.standalone { out.push_str(&ws(r, st, true)); out.push_str("standalone"); out.push_str(&ws(r, st, false)); out.push('='); out.push_str(&ws(r, st, false)); out.push_str(&render_lit(if s { "yes" } else { "no" }, r, st)); }
        out.push_str(&ws(r, st, false)); out.push_str("?>");
        toks.push(TK::XmlDecl, out);
    }
    for m in &doc.pre { toks.push(TK::Ws, ws(r, st, false)); t_misc(m, &mut toks); }
    if let Some(dt) = &doc.doctype {
        toks.push(TK::Ws, ws(r, st, false));
        let mut out = String::new();
        out.push_str("<!DOCTYPE"); out.push_str(&ws(r, st, true)); out.push_str(&qn(&dt.prefix, &dt.name));
        render_ext(&dt.pubid, &dt.sysid, r, st, &mut out);
        out.push_str(&ws(r, st, false));
        toks.push(TK::DoctypeOpen, out);
        if let Some(ds) = &dt.subset {
            toks.push(TK::SubsetOpen, "[".into());
            for d in ds { toks.push(TK::Ws, ws(r, st, false)); t_decl(d, r, st, &mut toks); }
            toks.push(TK::Ws, ws(r, st, false));
            toks.push(TK::SubsetClose, format!("]{}", ws(r, st, false)));
        }
        toks.push(TK::DoctypeClose, ">".into());
    }
    for m in &doc.mid { toks.push(TK::Ws, ws(r, st, false)); t_misc(m, &mut toks); }
    toks.push(TK::Ws, ws(r, st, false));
    t_elem(&doc.root, r, st, &mut toks);
    for m in &doc.post { toks.push(TK::Ws, ws(r, st, false)); t_misc(m, &mut toks); }
    toks.push(TK::Ws, ws(r, st, false));
    toks.v
}

/// render a list of content nodes (a replacement fragment)
pub fn render_nodes(nodes: &[Node], r: &mut Rng, st: Style) -> String { let mut out = TokOut { v: vec![] }; for n in nodes { t_node(n, r, st, &mut out); } join(&out.v) }

pub fn join(toks: &[Tok]) -> String { let mut s = String::new(); for t in toks { s.push_str(&t.s); } s }

pub fn render(doc: &Doc, r: &mut Rng, st: Style) -> String { join(&render_tokens(doc, r, st)) }

// ------------------------------------------------------------------------------------------------
// model-level variation: re-express character data without changing the merged view

fn vary_children(ch: &[Node], r: &mut Rng, out: &mut Vec<Node>) {
    for n in ch {
        match n {
            Node::Elem(e) => { let mut e2 = e.clone(); e2.children.clear(); vary_children(&e.children, r, &mut e2.children); out.push(Node::Elem(e2)); }
            // a text with a literal CR is left alone: cutting a CR LF pair in two would change what it denotes
            Node::Text(t) if r.chance(1, 2) && t.chars().count() >= 1 && !t.contains('\r') => {
                // split somewhere and put a character reference or CDATA in the middle
                let cs: Vec<char> = t.chars().collect();
                let i = r.below(cs.len());
                let head: String = cs[..i].iter().collect();
                let tail: String = cs[i + 1..].iter().collect();
                if !head.is_empty() { out.push(Node::Text(head)); }
                // a literal CR would have been normalised; keep such characters literal
                if cs[i] == '\r' { out.push(Node::Text("\r".into())); }
                else if r.chance(1, 2) { out.push(Node::CharRef(cs[i], r.chance(1, 2))); } else { out.push(Node::CData(cs[i].to_string())); }
                if !tail.is_empty() { out.push(Node::Text(tail)); }
            }
            Node::CData(t) if r.chance(1, 2) && !t.is_empty() && !t.contains('\r') => {
                // escaped text instead of CDATA
                let mut cur = String::new();
                for c in t.chars() {
                    match c {
                        '<' => { if !cur.is_empty() { out.push(Node::Text(std::mem::take(&mut cur))); } out.push(Node::EntRef("lt".into())); }
                        '&' => { if !cur.is_empty() { out.push(Node::Text(std::mem::take(&mut cur))); } out.push(Node::EntRef("amp".into())); }
                        '>' if cur.ends_with("]]") => { out.push(Node::Text(std::mem::take(&mut cur))); out.push(Node::EntRef("gt".into())); }
                        c => cur.push(c),
                    }
                }
                if !cur.is_empty() { out.push(Node::Text(cur)); }
            }
            Node::CharRef(c, _) if r.chance(1, 2) && !matches!(*c, '<' | '&' | '\r') => {
                // literal character instead of the reference (merge with a preceding literal text)
                if let Some(Node::Text(p)) = out.last_mut() { p.push(*c); } else { out.push(Node::Text(c.to_string())); }
            }
            Node::CharRef(c, h) => out.push(Node::CharRef(*c, !*h)),
            Node::Text(t) => { if let Some(Node::Text(p)) = out.last_mut() { p.push_str(t); } else { out.push(n.clone()); } }
            other => out.push(other.clone()),
        }
    }
}

/// A different raw structure with the same merged view. (Texts containing "]]&gt;" markers are
/// post-processed by `fix_markers`.)
pub fn vary(doc: &Doc, r: &mut Rng) -> Doc {
    let mut d = doc.clone();
    d.root.children.clear();
    vary_children(&doc.root.children, r, &mut d.root.children);
    normalize(&mut d.root);
    d
}
/// merge adjacent literal texts, drop empty ones, and break up "]]>" that arose from merging
pub fn normalize(e: &mut Elem) {
    let mut merged: Vec<Node> = vec![];
    for n in std::mem::take(&mut e.children) {
        match n {
            Node::Text(t) => { if t.is_empty() { continue; } if let Some(Node::Text(p)) = merged.last_mut() { p.push_str(&t); } else { merged.push(Node::Text(t)); } }
            o => merged.push(o),
        }
    }
    let mut out = vec![];
    for n in merged {
        match n {
            Node::Text(t) if t.contains("]]&gt;") || t.contains("]]>") => {
                let t = t.replace("]]>", "]]&gt;");
                let parts: Vec<&str> = t.split("]]&gt;").collect();
                for (i, p) in parts.iter().enumerate() {
                    let mut s = p.to_string();
                    if i + 1 < parts.len() { s.push_str("]]"); }
                    if !s.is_empty() { out.push(Node::Text(s)); }
                    if i + 1 < parts.len() { out.push(Node::EntRef("gt".into())); }
                }
            }
            Node::Elem(mut c) => { normalize(&mut c); out.push(Node::Elem(c)); }
            o => out.push(o),
        }
    }
    e.children = out;
}

// ------------------------------------------------------------------------------------------------
// expected canonical dump

#[derive(Clone, Copy, PartialEq)]
pub struct DumpOpt {
    pub merged: bool,
    /// namespace URIs of elements/attributes and namespace declaration lines
    pub ns: bool,
    /// prolog/doctype/notation/entity lines
    pub prolog: bool,
    /// the `specified` flag on attributes
    pub specified: bool,
    /// lines only libxml2 cannot produce are suppressed (level comparable with refxml.c)
    pub reflevel: bool,
}

pub struct Dumper<'a> { pub doc: &'a Doc, pub ents: Entities, pub opt: DumpOpt, pub out: String }

struct NsScope<'a> { parent: Option<&'a NsScope<'a>>, decls: &'a [(Option<String>, String)] }
impl<'a> NsScope<'a> {
    fn lookup(&self, p: Option<&str>) -> Option<String> {
        if p == Some("xml") { return Some(XML_NS.to_string()); }
        for (k, v) in self.decls.iter().rev() { if k.as_deref() == p { return if v.is_empty() { None } else { Some(v.clone()) }; } }
        match self.parent { Some(pa) => pa.lookup(p), None => None }
    }
}

impl<'a> Dumper<'a> {
    pub fn new(doc: &'a Doc, opt: DumpOpt) -> Dumper<'a> { Dumper { doc, ents: Entities::of(doc), opt, out: String::new() } }

    fn att_decl(&self, e: &Elem) -> Vec<AttDef> {
        // all attribute definitions for this element type, first definition of a name binds
        let mut v: Vec<AttDef> = vec![];
        if let Some(dt) = &self.doc.doctype { if let Some(ds) = &dt.subset { for d in ds { if let Decl::Attlist(p, l, defs) = d {
            if p == &e.prefix && l == &e.local { for df in defs { if !v.iter().any(|x| x.prefix == df.prefix && x.local == df.local) { v.push(df.clone()); } } }
        } } } }
        v
    }

    fn elem(&mut self, e: &Elem, depth: usize, scope: &NsScope) {
        let sc = NsScope { parent: Some(scope), decls: &e.nsdecls };
        let uri = sc.lookup(e.prefix.as_deref());
        if self.opt.ns { self.out.push_str(&format!("E {} {} {} {}\n", depth, esc_opt(e.prefix.as_deref()), esc(&e.local), esc_opt(uri.as_deref()))); }
        else { self.out.push_str(&format!("E {} {} {}\n", depth, esc_opt(e.prefix.as_deref()), esc(&e.local))); }
        let defs = self.att_decl(e);
        // attributes: specified + defaulted, sorted by (prefix, local)
        let mut lines: Vec<(String, String, String)> = vec![];
        for a in &e.attrs {
            let cd = defs.iter().find(|d| d.prefix == a.prefix && d.local == a.local).map(|d| d.ty == AttType::CData).unwrap_or(true);
            let val = attr_normalized(&a.value, &self.ents, cd);
            let auri = if a.prefix.is_some() { sc.lookup(a.prefix.as_deref()) } else { None };
            lines.push((a.prefix.clone().unwrap_or_default(), a.local.clone(), self.attr_line(depth + 1, &a.prefix, &a.local, auri.as_deref(), &val, true)));
        }
        for d in &defs {
            if let AttDefault::Value(_, v) = &d.default {
                if !e.attrs.iter().any(|a| a.prefix == d.prefix && a.local == d.local) {
                    let val = attr_normalized(v, &self.ents, d.ty == AttType::CData);
                    let auri = if d.prefix.is_some() { sc.lookup(d.prefix.as_deref()) } else { None };
                    lines.push((d.prefix.clone().unwrap_or_default(), d.local.clone(), self.attr_line(depth + 1, &d.prefix, &d.local, auri.as_deref(), &val, false)));
                }
            }
        }
        lines.sort();
        for l in lines { self.out.push_str(&l.2); }
        if self.opt.ns {
            let mut ns: Vec<(String, String)> = vec![];
            let mut cur: Option<&NsScope> = Some(&sc);
            let mut seen: Vec<Option<String>> = vec![];
            while let Some(c) = cur {
                for (p, u) in c.decls.iter().rev() {
                    if seen.contains(p) { continue; }
                    seen.push(p.clone());
                    if !u.is_empty() && p.as_deref() != Some("xml") { ns.push((p.clone().unwrap_or_default(), format!("I {} {} {}\n", depth + 1, esc_opt(p.as_deref()), esc(u)))); }
                }
                cur = c.parent;
            }
            ns.sort();
            for l in ns { self.out.push_str(&l.1); }
        }
        self.children(&e.children, depth + 1, &sc);
    }

    fn attr_line(&self, depth: usize, p: &Option<String>, l: &str, uri: Option<&str>, val: &str, spec: bool) -> String {
        let mut s = format!("A {} {} {}", depth, esc_opt(p.as_deref()), esc(l));
        if self.opt.ns { s.push(' '); s.push_str(&esc_opt(uri)); }
        s.push(' '); s.push_str(&esc(val));
        if self.opt.specified { s.push_str(if spec { " S" } else { " D" }); }
        s.push('\n');
        s
    }

    fn children(&mut self, ch: &[Node], depth: usize, sc: &NsScope) {
        let mut run: Option<String> = None;
        for n in ch {
            if self.opt.merged {
                let piece = match n {
                    Node::Text(t) => Some(norm_eol(t)), Node::CData(t) => Some(norm_eol(t)), Node::CharRef(c, _) => Some(c.to_string()),
                    Node::EntRef(nm) => Some(self.ents.content_value(nm)), _ => None,
                };
                if let Some(p) = piece { run.get_or_insert_with(String::new).push_str(&p); continue; }
                if let Some(t) = run.take() { if !t.is_empty() { self.out.push_str(&format!("X {} {}\n", depth, esc(&t))); } }
            }
            match n {
                Node::Elem(e) => self.elem(e, depth, sc),
                Node::Text(t) => self.out.push_str(&format!("X {} {}\n", depth, esc(&norm_eol(t)))),
                Node::CData(t) => self.out.push_str(&format!("K {} {}\n", depth, esc(&norm_eol(t)))),
                Node::CharRef(c, h) => self.out.push_str(&format!("R {} {} {}\n", depth, esc(&if *h { format!("&#x{:x};", *c as u32) } else { format!("&#{};", *c as u32) }), esc(&c.to_string()))),
                Node::EntRef(nm) => { let v = self.ents.content_value(nm); self.out.push_str(&format!("R {} {} {}\n", depth, esc(nm), esc(&v))) }
                Node::Comment(c) => self.out.push_str(&format!("C {} {}\n", depth, esc(&norm_eol(c)))),
                Node::PI(t, d) => self.out.push_str(&format!("P {} {} {}\n", depth, esc(t), esc(&norm_eol(d.as_deref().unwrap_or(""))))),
            }
        }
        if let Some(t) = run.take() { if !t.is_empty() { self.out.push_str(&format!("X {} {}\n", depth, esc(&t))); } }
    }

    fn misc(&mut self, m: &Misc) {
        match m {
            Misc::Comment(c) => self.out.push_str(&format!("C 0 {}\n", esc(&norm_eol(c)))),
            Misc::PI(t, d) => self.out.push_str(&format!("P 0 {} {}\n", esc(t), esc(&norm_eol(d.as_deref().unwrap_or(""))))),
        }
    }

    pub fn run(mut self) -> String {
        let doc = self.doc;
        if self.opt.prolog {
            match &doc.decl {
                Some(d) => {
                    if self.opt.reflevel { self.out.push_str(&format!("D {} {} {}\n", esc(&d.version), esc_opt(d.encoding.as_deref()), match d.standalone { Some(true) => 1, Some(false) => 0, None => -1 })); }
                    else { self.out.push_str(&format!("D {} {} {}\n", esc(&d.version), esc_opt(d.encoding.as_deref()), match d.standalone { Some(true) => "yes", Some(false) => "no", None => "~" })); }
                }
                None => { if self.opt.reflevel { self.out.push_str("D \"1.0\" ~ -1\n"); } else { self.out.push_str("D ~ ~ ~\n"); } }
            }
        }
        for m in &doc.pre { self.misc(m); }
        if let Some(dt) = &doc.doctype {
            if self.opt.prolog {
                self.out.push_str(&format!("T 0 {} {} {}\n", esc(&qn(&dt.prefix, &dt.name)), esc_opt(dt.pubid.as_deref()), esc_opt(dt.sysid.as_deref())));
                let mut nots: Vec<String> = vec![]; let mut unp: Vec<String> = vec![]; let mut seen_n: Vec<&str> = vec![]; let mut seen_e: Vec<&str> = vec![];
                if let Some(ds) = &dt.subset {
                    for d in ds {
                        match d {
                            Decl::Notation(n, p, s) => { if !seen_n.contains(&n.as_str()) { seen_n.push(n); nots.push(format!("O {} {} {}\n", esc(n), esc_opt(p.as_deref()), esc_opt(s.as_deref()))); } }
                            Decl::ExtEntity(n, p, s, Some(nd)) => { if !seen_e.contains(&n.as_str()) { seen_e.push(n); unp.push(format!("U {} {} {} {}\n", esc(n), esc_opt(p.as_deref()), esc(s), esc(nd))); } }
                            Decl::ExtEntity(n, _, _, None) | Decl::Entity(n, _) => { if !seen_e.contains(&n.as_str()) { seen_e.push(n); } }
                            _ => {}
                        }
                    }
                }
                nots.sort(); unp.sort();
                for l in nots { self.out.push_str(&l); }
                for l in unp { self.out.push_str(&l); }
                if let Some(ds) = &dt.subset { for d in ds { if let Decl::PI(t, dd) = d { self.out.push_str(&format!("P 1 {} {}\n", esc(t), esc(&norm_eol(dd.as_deref().unwrap_or(""))))); } } }
            }
        }
        for m in &doc.mid { self.misc(m); }
        let top = NsScope { parent: None, decls: &[] };
        self.elem(&doc.root, 0, &top);
        for m in &doc.post { self.misc(m); }
        self.out
    }
}

pub fn expected_dump(doc: &Doc, opt: DumpOpt) -> String { Dumper::new(doc, opt).run() }

pub fn count_nodes(e: &Elem) -> usize { 1 + e.attrs.len() + e.children.iter().map(|c| match c { Node::Elem(x) => count_nodes(x), _ => 1 }).sum::<usize>() }

/// coarse feature names of a document (for coverage histograms and shrinking signatures)
pub fn features(doc: &Doc) -> Vec<&'static str> {
    let mut f = vec![];
    if doc.decl.is_some() { f.push("xmldecl"); }
    if !doc.pre.is_empty() || !doc.mid.is_empty() { f.push("prolog-misc"); }
    if !doc.post.is_empty() { f.push("epilog-misc"); }
    if let Some(dt) = &doc.doctype {
        f.push("doctype");
        if dt.pubid.is_some() || dt.sysid.is_some() { f.push("doctype-extid"); }
        if let Some(ds) = &dt.subset { for d in ds { f.push(match d { Decl::Entity(..) => "decl-entity", Decl::ExtEntity(..) => "decl-extentity", Decl::Notation(..) => "decl-notation", Decl::Attlist(..) => "decl-attlist", Decl::Element(..) => "decl-element", Decl::Comment(_) => "decl-comment", Decl::PI(..) => "decl-pi" }); } }
    }
    fn walk(e: &Elem, f: &mut Vec<&'static str>) {
        if e.prefix.is_some() { f.push("elem-prefix"); }
        if !e.nsdecls.is_empty() { f.push("nsdecl"); }
        if e.nsdecls.iter().any(|d| d.0.is_none() && d.1.is_empty()) { f.push("ns-undeclare"); }
        if !e.local.is_ascii() { f.push("nonascii-name"); }
        for a in &e.attrs {
            f.push("attr");
            if a.prefix.is_some() { f.push("attr-prefix"); }
            for p in &a.value { f.push(match p { APiece::Text(_) => "attr-text", APiece::CharRef(..) => "attr-charref", APiece::EntRef(_) => "attr-entref" }); }
        }
        for c in &e.children {
            match c {
                Node::Elem(x) => { f.push("child-elem"); walk(x, f); }
                Node::Text(_) => f.push("text"), Node::CData(_) => f.push("cdata"), Node::CharRef(..) => f.push("charref"), Node::EntRef(_) => f.push("entref"),
                Node::Comment(_) => f.push("comment"), Node::PI(..) => f.push("pi"),
            }
        }
    }
    walk(&doc.root, &mut f);
    f.sort(); f.dedup();
    f
}
