//! Model-level shrinking: greedy single-step reductions of a DocModel that keep a failure alive.
use crate::model::*;

fn ent_declared(doc: &Doc, n: &str) -> bool {
    if matches!(n, "lt" | "gt" | "amp" | "apos" | "quot") { return true; }
    if let Some(dt) = &doc.doctype { if let Some(ds) = &dt.subset { return ds.iter().any(|d| matches!(d, Decl::Entity(x, _) if x == n)); } }
    false
}

/// the model must stay a well-formed, namespace-well-formed document of the profile
pub fn model_ok(doc: &Doc) -> bool {
    fn pieces_ok(doc: &Doc, v: &[APiece]) -> bool { v.iter().all(|p| match p { APiece::EntRef(n) => ent_declared(doc, n), _ => true }) }
    fn elem_ok(doc: &Doc, e: &Elem, bound: &mut Vec<String>) -> bool {
        let mark = bound.len();
        for (p, _) in &e.nsdecls { if let Some(p) = p { bound.push(p.clone()); } }
        let mut ok = true;
        if let Some(p) = &e.prefix { ok &= bound.contains(p); }
        for a in &e.attrs { if let Some(p) = &a.prefix { ok &= p == "xml" || bound.contains(p); } ok &= pieces_ok(doc, &a.value); }
        for c in &e.children {
            match c { Node::Elem(x) => ok &= elem_ok(doc, x, bound), Node::EntRef(n) => ok &= ent_declared(doc, n), _ => {} }
        }
        bound.truncate(mark);
        ok
    }
    // entity values may only refer to entities declared earlier
    if let Some(dt) = &doc.doctype { if let Some(ds) = &dt.subset {
        let mut seen: Vec<&str> = vec![];
        for d in ds { if let Decl::Entity(n, v) = d {
            for p in v { if let APiece::EntRef(r) = p { if !matches!(r.as_str(), "lt" | "gt" | "amp" | "apos" | "quot") && !seen.contains(&r.as_str()) { return false; } } }
            seen.push(n);
        } }
    } }
    if doc.doctype.is_none() && !doc.mid.is_empty() { return false; }
    elem_ok(doc, &doc.root, &mut vec![])
}

fn halves(s: &str) -> Vec<String> {
    let cs: Vec<char> = s.chars().collect();
    if cs.len() < 2 { return vec![]; }
    let m = cs.len() / 2;
    vec![cs[..m].iter().collect(), cs[m..].iter().collect()]
}

fn elem_mutations(e: &Elem) -> Vec<Elem> {
    let mut out = vec![];
    for i in 0..e.children.len() { let mut x = e.clone(); x.children.remove(i); normalize(&mut x); out.push(x); }
    for i in 0..e.attrs.len() { let mut x = e.clone(); x.attrs.remove(i); out.push(x); }
    for i in 0..e.nsdecls.len() { let mut x = e.clone(); x.nsdecls.remove(i); out.push(x); }
    if e.prefix.is_some() { let mut x = e.clone(); x.prefix = None; out.push(x); }
    for (i, a) in e.attrs.iter().enumerate() {
        for j in 0..a.value.len() { let mut x = e.clone(); x.attrs[i].value.remove(j); out.push(x); }
        for (j, p) in a.value.iter().enumerate() { if let APiece::Text(t) = p { for h in halves(t) { let mut x = e.clone(); x.attrs[i].value[j] = APiece::Text(h); out.push(x); } } }
        if a.prefix.is_some() { let mut x = e.clone(); x.attrs[i].prefix = None; if !x.attrs.iter().enumerate().any(|(k, b)| k != i && b.prefix.is_none() && b.local == a.local) { out.push(x); } }
    }
    for (i, c) in e.children.iter().enumerate() {
        match c {
            Node::Elem(ce) => {
                for m in elem_mutations(ce) { let mut x = e.clone(); x.children[i] = Node::Elem(m); out.push(x); }
                // hoist: replace the parent's children by this child's children
            }
            Node::Text(t) => for h in halves(t) { let mut x = e.clone(); x.children[i] = Node::Text(h); normalize(&mut x); out.push(x); },
            Node::CData(t) => for h in halves(t) { if !h.contains("]]>") { let mut x = e.clone(); x.children[i] = Node::CData(h); out.push(x); } },
            Node::Comment(t) => for h in halves(t) { if !h.ends_with('-') && !h.contains("--") { let mut x = e.clone(); x.children[i] = Node::Comment(h); out.push(x); } },
            Node::PI(tg, Some(d)) => { let mut x = e.clone(); x.children[i] = Node::PI(tg.clone(), None); out.push(x); for h in halves(d) { let h = h.trim_start().to_string(); if !h.contains("?>") { let mut x = e.clone(); x.children[i] = Node::PI(tg.clone(), Some(h)); out.push(x); } } }
            _ => {}
        }
    }
    out
}

pub fn mutations(doc: &Doc) -> Vec<Doc> {
    let mut out = vec![];
    if doc.decl.is_some() { let mut d = doc.clone(); d.decl = None; out.push(d); }
    if let Some(x) = &doc.decl {
        if x.encoding.is_some() { let mut d = doc.clone(); d.decl.as_mut().unwrap().encoding = None; out.push(d); }
        if x.standalone.is_some() { let mut d = doc.clone(); d.decl.as_mut().unwrap().standalone = None; out.push(d); }
    }
    for i in 0..doc.pre.len() { let mut d = doc.clone(); d.pre.remove(i); out.push(d); }
    for i in 0..doc.mid.len() { let mut d = doc.clone(); d.mid.remove(i); out.push(d); }
    for i in 0..doc.post.len() { let mut d = doc.clone(); d.post.remove(i); out.push(d); }
    if let Some(dt) = &doc.doctype {
        { let mut d = doc.clone(); d.doctype = None; let mut m = std::mem::take(&mut d.mid); d.pre.append(&mut m); out.push(d); }
        if dt.pubid.is_some() || dt.sysid.is_some() { let mut d = doc.clone(); let x = d.doctype.as_mut().unwrap(); x.pubid = None; x.sysid = None; out.push(d); }
        if dt.prefix.is_some() { let mut d = doc.clone(); d.doctype.as_mut().unwrap().prefix = None; out.push(d); }
        if let Some(ds) = &dt.subset {
            if ds.is_empty() { let mut d = doc.clone(); d.doctype.as_mut().unwrap().subset = None; out.push(d); }
            for i in 0..ds.len() { let mut d = doc.clone(); d.doctype.as_mut().unwrap().subset.as_mut().unwrap().remove(i); out.push(d); }
            for (i, dc) in ds.iter().enumerate() {
                match dc {
                    Decl::Entity(n, v) => {
                        for j in 0..v.len() { let mut d = doc.clone(); if let Decl::Entity(_, vv) = &mut d.doctype.as_mut().unwrap().subset.as_mut().unwrap()[i] { vv.remove(j); } out.push(d); }
                        for (j, p) in v.iter().enumerate() { if let APiece::Text(t) = p { for h in halves(t) { let mut d = doc.clone(); d.doctype.as_mut().unwrap().subset.as_mut().unwrap()[i] = { let mut vv = v.clone(); vv[j] = APiece::Text(h); Decl::Entity(n.clone(), vv) }; out.push(d); } } }
                    }
                    Decl::Attlist(p, l, defs) => { for j in 0..defs.len() { let mut dd = defs.clone(); dd.remove(j); let mut d = doc.clone(); d.doctype.as_mut().unwrap().subset.as_mut().unwrap()[i] = Decl::Attlist(p.clone(), l.clone(), dd); out.push(d); } }
                    _ => {}
                }
            }
        }
    }
    for m in elem_mutations(&doc.root) { let mut d = doc.clone(); d.root = m; out.push(d); }
    out
}

/// greedy shrink; `fails` must return true for the original
pub fn shrink(doc: &Doc, fails: &mut dyn FnMut(&Doc) -> bool) -> Doc {
    let mut cur = doc.clone();
    let mut budget = 400;
    'outer: loop {
        for m in mutations(&cur) {
            if budget == 0 { break 'outer; }
            if !model_ok(&m) { continue; }
            budget -= 1;
            if fails(&m) { cur = m; continue 'outer; }
        }
        break;
    }
    cur
}
