//! DOM Level 1 reference model (O2) for edit histories: an arena tree that mirrors the pool of live
//! nodes index by index, the set of admissible outcomes of every call (DOM Level 1 Core, written from the
//! recommendation text) and the effect of a successful call.
use crate::dompool::{Op, Pool, E, K};
use crate::spec;
use crate::util::{esc, esc_opt};
use xml_dom::Node;

#[derive(Clone, Debug)]
pub struct MNode {
    pub kind: K,
    pub doc: usize,
    /// tag name / attribute name / PI target / reference name
    pub name: String,
    /// text, comment, CDATA, PI data; replacement value of a reference
    pub data: String,
    pub parent: Option<usize>,
    pub children: Vec<usize>,
    /// attributes of an element
    pub attrs: Vec<usize>,
    /// owner element of an attribute
    pub owner: Option<usize>,
}

#[derive(Clone)]
pub struct Model { pub n: Vec<MNode> }

/// implicit nodes a successful call creates, to be registered by the caller
#[derive(Clone, Debug, PartialEq)]
pub enum Adopt { Nothing, Attr { e: usize, local: String, value: String }, AttrChildren { a: usize, value: String } }

/// what DOM Level 1 admits for a call
#[derive(Clone, Debug, PartialEq)]
pub struct Expect {
    /// the call may succeed
    pub ok: bool,
    /// exception classes of which any one may be raised
    pub errs: Vec<E>,
    /// DOM Level 1 does not say (either outcome; the model cannot predict the effect)
    pub unspecified: bool,
}

impl Expect {
    fn ok() -> Expect { Expect { ok: true, errs: vec![], unspecified: false } }
    fn err(v: Vec<E>) -> Expect { Expect { ok: false, errs: v, unspecified: false } }
    fn unspecified() -> Expect { Expect { ok: true, errs: vec![], unspecified: true } }
    pub fn describe(&self) -> String { if self.unspecified { "unspecified".into() } else if self.ok { "ok".into() } else { let mut v: Vec<String> = self.errs.iter().map(|e| e.name()).collect(); v.sort(); v.join("|") } }
}

fn can_contain(parent: K, child: K) -> bool {
    match parent {
        K::Element => matches!(child, K::Element | K::Text | K::CData | K::Comment | K::PI | K::EntRef),
        K::Document => matches!(child, K::Element | K::Comment | K::PI | K::Doctype),
        K::Attr => matches!(child, K::Text | K::EntRef),
        _ => false,
    }
}

/// the part of a name DOM reports as the node name (xml-rs reports local names)
fn local_of(name: &str) -> String { match name.find(':') { Some(p) => name[p + 1..].to_string(), None => name.to_string() } }

impl Model {
    /// mirror the pool: node i of the model is node i of the pool
    pub fn from_pool(pool: &Pool) -> Model {
        let mut m = Model { n: vec![] };
        for i in 0..pool.h.len() { m.n.push(Self::blank(pool, i)); }
        // structure: parents and children as the library reports them at the start (the parse result is C01's business)
        for i in 0..pool.h.len() {
            let h = &pool.h[i];
            if matches!(h.kind, K::Document | K::Element | K::Attr) {
                for c in h.node.child_nodes().iter() { if let Some(ci) = pool.find(&c, h.doc) { m.n[i].children.push(ci); m.n[ci].parent = Some(i); } }
            }
            if h.kind == K::Element { if let Some(attrs) = h.node.attributes() { for a in attrs.iter() { let an = xml_dom::AsNode::as_node(&a); if let Some(ai) = pool.find(&an, h.doc) { m.n[i].attrs.push(ai); m.n[ai].owner = Some(i); } } } }
        }
        m
    }

    fn blank(pool: &Pool, i: usize) -> MNode {
        let h = &pool.h[i];
        let name = match h.kind { K::Element | K::Attr | K::PI | K::EntRef | K::Doctype => h.node.node_name(), _ => String::new() };
        let data = match h.kind { K::Text | K::CData | K::Comment | K::PI | K::EntRef => pool.data_of(i).unwrap_or_default(), _ => String::new() };
        MNode { kind: h.kind, doc: h.doc, name, data, parent: None, children: vec![], attrs: vec![], owner: None }
    }

    /// nodes the pool gained during the last call get model twins (their structure is set by `apply`)
    pub fn sync_new(&mut self, pool: &Pool) { while self.n.len() < pool.h.len() { let i = self.n.len(); self.n.push(Self::blank(pool, i)); } }

    pub fn is_ancestor_or_self(&self, a: usize, n: usize) -> bool { let mut cur = Some(n); while let Some(x) = cur { if x == a { return true; } cur = self.n[x].parent; } false }

    pub fn doc_element(&self, d: usize) -> Option<usize> { self.n[d].children.iter().cloned().find(|&c| self.n[c].kind == K::Element) }
    pub fn doc_doctype(&self, d: usize) -> Option<usize> { self.n[d].children.iter().cloned().find(|&c| self.n[c].kind == K::Doctype) }

    /// the value an attribute reports: its pieces concatenated; xml-rs applies the XML 1.0 3.3.3 rule (literal TAB/LF/CR of
    /// text pieces read as spaces) whenever the value is read, which DOM Level 1 leaves to the implementation
    pub fn attr_value(&self, a: usize) -> String { self.n[a].children.iter().map(|&c| if self.n[c].kind == K::EntRef && self.n[c].name.starts_with("&#") { self.n[c].data.clone() } else { crate::model::ws_to_space(&self.n[c].data) }).collect() }

    fn insert_expect(&self, p: usize, c: usize, r: Option<usize>) -> Expect {
        let (pk, ck) = (self.n[p].kind, self.n[c].kind);
        let mut errs = vec![];
        if !matches!(pk, K::Element | K::Document | K::Attr) { return Expect::err(vec![E::HierarchyRequest, E::NotCallable]); }
        if ck == K::Fragment || ck == K::Doctype || pk == K::EntRef { return Expect::unspecified(); }
        if self.n[c].doc != self.n[p].doc { errs.push(E::WrongDocument); }
        if let Some(r) = r { if self.n[r].doc != self.n[p].doc { errs.push(E::WrongDocument); errs.push(E::NotFound); } }
        if !can_contain(pk, ck) { errs.push(E::HierarchyRequest); }
        if self.is_ancestor_or_self(c, p) { errs.push(E::HierarchyRequest); }
        if let Some(r) = r { if self.n[r].parent != Some(p) { errs.push(E::NotFound); } }
        // a document holds at most one element: a second one is refused (moving the one it has is fine)
        if pk == K::Document && ck == K::Element { if let Some(e) = self.doc_element(p) { if e != c { errs.push(E::HierarchyRequest); } } }
        // ... and its element comes after its document type declaration (the prolog order of XML; DOM Level 1 lets the
        // implementation refuse children a node "does not allow")
        if pk == K::Document && ck == K::Element { if let Some(r) = r { if let Some(pos) = self.n[p].children.iter().position(|&x| x == r) { if self.n[p].children[pos..].iter().any(|&x| self.n[x].kind == K::Doctype) { errs.push(E::HierarchyRequest); } } } }
        // a Document node has no owner document: WRONG_DOCUMENT is as defensible as the other classes when one is passed
        if !errs.is_empty() && (ck == K::Document || r.map(|r| self.n[r].kind == K::Document).unwrap_or(false)) { errs.push(E::WrongDocument); }
        if !errs.is_empty() { errs.sort(); errs.dedup(); return Expect::err(errs); }
        if Some(c) == r { return Expect::unspecified(); }
        Expect::ok()
    }

    fn name_ok(name: &str) -> bool { spec::is_name(name) }

    /// admissible outcomes of a call in the current state
    pub fn expect(&self, op: &Op) -> Expect {
        match op {
            Op::AppendChild { p, c } => self.insert_expect(*p, *c, None),
            Op::InsertBefore { p, c, r } => self.insert_expect(*p, *c, *r),
            Op::ReplaceChild { p, n, o } => {
                let e = self.insert_expect(*p, *n, Some(*o));
                if n == o || self.n[*o].kind == K::Doctype { return Expect::unspecified(); }
                // replacing the document element by another element is legal although a second element may not be inserted
                if !e.ok && self.n[*p].kind == K::Document && self.n[*n].kind == K::Element && self.n[*o].kind == K::Element && self.n[*o].parent == Some(*p) && self.n[*n].doc == self.n[*p].doc && !self.is_ancestor_or_self(*n, *p) { return Expect::ok(); }
                e
            }
            Op::RemoveChild { p, o } => {
                if !matches!(self.n[*p].kind, K::Element | K::Document | K::Attr) { return Expect::err(vec![E::HierarchyRequest, E::NotFound, E::NotCallable]); }
                // removing the document type takes the entity declarations with it; DOM Level 1 treats the doctype as read-only and does not say
                if self.n[*o].kind == K::Doctype { return Expect::unspecified(); }
                if self.n[*o].kind == K::Document { return Expect::err(vec![E::NotFound, E::WrongDocument]); }
                if self.n[*o].parent == Some(*p) { Expect::ok() } else if self.n[*o].doc != self.n[*p].doc { Expect::err(vec![E::NotFound, E::WrongDocument]) } else { Expect::err(vec![E::NotFound]) }
            }
            Op::SetAttribute { e, name, .. } => { if self.n[*e].kind != K::Element { return Expect::err(vec![E::NotCallable]); } if Self::name_ok(name) { Expect::ok() } else { Expect::err(vec![E::InvalidCharacter]) } }
            Op::RemoveAttribute { e, .. } => { if self.n[*e].kind != K::Element { return Expect::err(vec![E::NotCallable]); } Expect::ok() }
            Op::SetAttributeNode { e, a } | Op::SetNamedItem { e, a } => {
                if self.n[*e].kind != K::Element || self.n[*a].kind != K::Attr { return Expect::err(vec![E::NotCallable]); }
                let mut errs = vec![];
                if self.n[*a].doc != self.n[*e].doc { errs.push(E::WrongDocument); }
                if let Some(o) = self.n[*a].owner { if o != *e { errs.push(E::InuseAttribute); } else if errs.is_empty() { return Expect::unspecified(); } }
                if errs.is_empty() { Expect::ok() } else { Expect::err(errs) }
            }
            Op::RemoveAttributeNode { e, a } => {
                if self.n[*e].kind != K::Element || self.n[*a].kind != K::Attr { return Expect::err(vec![E::NotCallable]); }
                if self.n[*a].owner == Some(*e) { Expect::ok() } else { Expect::err(vec![E::NotFound]) }
            }
            Op::RemoveNamedItem { e, name } => {
                if self.n[*e].kind != K::Element { return Expect::err(vec![E::NotCallable]); }
                if self.n[*e].attrs.iter().any(|&a| &self.n[a].name == name) { Expect::ok() } else { Expect::err(vec![E::NotFound]) }
            }
            Op::CreateElement { name, .. } | Op::CreateAttribute { name, .. } => if Self::name_ok(name) { Expect::ok() } else { Expect::err(vec![E::InvalidCharacter]) },
            Op::CreatePI { target, .. } => if Self::name_ok(target) && !target.eq_ignore_ascii_case("xml") { Expect::ok() } else { Expect::err(vec![E::InvalidCharacter]) },
            Op::CreateEntRef { name, .. } => if Self::name_ok(name) { Expect::unspecified() } else { Expect::err(vec![E::InvalidCharacter]) },
            Op::CreateText { .. } | Op::CreateComment { .. } | Op::CreateCData { .. } => Expect::ok(),
            Op::SetNodeValue { n, .. } => match self.n[*n].kind { K::Attr | K::Text | K::CData | K::Comment | K::PI => Expect::ok(), K::Element | K::Document => Expect::unspecified(), _ => Expect::err(vec![E::NotCallable]) },
            Op::SetData { n, .. } => match self.n[*n].kind { K::Text | K::CData | K::Comment | K::PI => Expect::ok(), _ => Expect::err(vec![E::NotCallable]) },
            Op::AppendData { n, .. } => self.cd(*n, 0, None),
            Op::InsertData { n, off, .. } => self.cd(*n, *off, None),
            Op::DeleteData { n, off, .. } | Op::ReplaceData { n, off, .. } | Op::SubstringData { n, off, .. } => self.cd(*n, *off, None),
            Op::Length { n } => self.cd(*n, 0, None),
            Op::SplitText { n, off } => {
                if !matches!(self.n[*n].kind, K::Text | K::CData) { return Expect::err(vec![E::NotCallable]); }
                if *off > self.n[*n].data.chars().count() { return Expect::err(vec![E::IndexSize]); }
                // DOM Level 1 describes split_text for a node in a tree; for a node without parent it does not say
                if self.n[*n].parent.is_none() { return Expect::unspecified(); }
                Expect::ok()
            }
        }
    }

    fn cd(&self, n: usize, off: usize, _c: Option<usize>) -> Expect {
        if !matches!(self.n[n].kind, K::Text | K::CData | K::Comment) { return Expect::err(vec![E::NotCallable]); }
        if off > self.n[n].data.chars().count() { Expect::err(vec![E::IndexSize]) } else { Expect::ok() }
    }

    fn detach(&mut self, c: usize) { if let Some(p) = self.n[c].parent.take() { self.n[p].children.retain(|&x| x != c); } }

    fn insert(&mut self, p: usize, c: usize, r: Option<usize>) {
        self.detach(c);
        let at = match r { Some(r) => self.n[p].children.iter().position(|&x| x == r).unwrap_or(self.n[p].children.len()), None => self.n[p].children.len() };
        self.n[p].children.insert(at, c);
        self.n[c].parent = Some(p);
    }

    /// Apply the effect of a successful call. `ret` is the pool index of the node the library returned (if
    /// any). Nodes that the library creates implicitly (the Attr made by set_attribute, the Text that carries a
    /// newly set attribute value) are not predicted node by node: the caller registers them and hands them to
    /// `adopt_attr` / `adopt_attr_children`, which check them against the value the call supplied.
    pub fn apply(&mut self, op: &Op, ret: Option<usize>) -> Result<Adopt, String> {
        match op {
            Op::AppendChild { p, c } => { self.insert(*p, *c, None); if ret != Some(*c) { return Err(format!("returned node is not the appended child (#{:?})", ret)); } }
            Op::InsertBefore { p, c, r } => { self.insert(*p, *c, *r); if ret != Some(*c) { return Err(format!("returned node is not the inserted child (#{:?})", ret)); } }
            Op::ReplaceChild { p, n, o } => { self.insert(*p, *n, Some(*o)); self.detach(*o); if ret != Some(*o) { return Err(format!("returned node is not the replaced child (#{:?})", ret)); } }
            Op::RemoveChild { o, .. } => { self.detach(*o); if ret != Some(*o) { return Err(format!("returned node is not the removed child (#{:?})", ret)); } }
            Op::SetAttribute { e, name, value } => {
                let local = local_of(name);
                if let Some(pos) = self.n[*e].attrs.iter().position(|&a| self.n[a].name == local) { let a = self.n[*e].attrs.remove(pos); self.n[a].owner = None; }
                return Ok(Adopt::Attr { e: *e, local, value: value.clone() });
            }
            Op::RemoveAttribute { e, name } => { if let Some(pos) = self.n[*e].attrs.iter().position(|&a| &self.n[a].name == name) { let a = self.n[*e].attrs.remove(pos); self.n[a].owner = None; } }
            Op::SetAttributeNode { e, a } | Op::SetNamedItem { e, a } => {
                let name = self.n[*a].name.clone();
                let old = self.n[*e].attrs.iter().position(|&x| self.n[x].name == name).map(|pos| self.n[*e].attrs.remove(pos));
                if let Some(o) = old { self.n[o].owner = None; }
                self.n[*e].attrs.push(*a); self.n[*a].owner = Some(*e);
                if ret != old { return Err(format!("returned attribute #{:?} but the replaced one is #{:?}", ret, old)); }
            }
            Op::RemoveAttributeNode { e, a } => { self.n[*e].attrs.retain(|x| x != a); self.n[*a].owner = None; if ret != Some(*a) { return Err(format!("returned node is not the removed attribute (#{:?})", ret)); } }
            Op::RemoveNamedItem { e, name } => { let pos = self.n[*e].attrs.iter().position(|&a| &self.n[a].name == name).unwrap(); let a = self.n[*e].attrs.remove(pos); self.n[a].owner = None; if ret != Some(a) { return Err(format!("returned node is not the removed attribute (#{:?})", ret)); } }
            Op::CreateElement { name, .. } => { let i = ret.ok_or("no node returned")?; self.n[i].kind = K::Element; self.n[i].name = local_of(name); self.check_fresh(i)?; }
            Op::CreateAttribute { name, .. } => { let i = ret.ok_or("no node returned")?; self.n[i].kind = K::Attr; self.n[i].name = local_of(name); self.check_fresh(i)?; }
            Op::CreateText { data, .. } => { let i = ret.ok_or("no node returned")?; self.n[i].kind = K::Text; self.n[i].data = data.clone(); self.check_fresh(i)?; }
            Op::CreateComment { data, .. } => { let i = ret.ok_or("no node returned")?; self.n[i].kind = K::Comment; self.n[i].data = data.clone(); self.check_fresh(i)?; }
            Op::CreateCData { data, .. } => { let i = ret.ok_or("no node returned")?; self.n[i].kind = K::CData; self.n[i].data = data.clone(); self.check_fresh(i)?; }
            Op::CreatePI { target, data, .. } => { let i = ret.ok_or("no node returned")?; self.n[i].kind = K::PI; self.n[i].name = target.clone(); self.n[i].data = data.clone(); self.check_fresh(i)?; }
            Op::CreateEntRef { .. } => {}
            Op::SetNodeValue { n, value } | Op::SetData { n, data: value } => {
                match self.n[*n].kind {
                    K::Attr => { for c in std::mem::take(&mut self.n[*n].children) { self.n[c].parent = None; } return Ok(Adopt::AttrChildren { a: *n, value: value.clone() }); }
                    K::Text | K::CData | K::Comment | K::PI => self.n[*n].data = value.clone(),
                    _ => {}
                }
            }
            Op::AppendData { n, data } => self.n[*n].data.push_str(data),
            Op::InsertData { n, off, data } => { let cs: Vec<char> = self.n[*n].data.chars().collect(); let mut s: String = cs[..*off].iter().collect(); s.push_str(data); s.extend(cs[*off..].iter()); self.n[*n].data = s; }
            Op::DeleteData { n, off, count } => { let cs: Vec<char> = self.n[*n].data.chars().collect(); let end = off.saturating_add(*count).min(cs.len()); let mut s: String = cs[..*off].iter().collect(); s.extend(cs[end..].iter()); self.n[*n].data = s; }
            Op::ReplaceData { n, off, count, data } => { let cs: Vec<char> = self.n[*n].data.chars().collect(); let end = off.saturating_add(*count).min(cs.len()); let mut s: String = cs[..*off].iter().collect(); s.push_str(data); s.extend(cs[end..].iter()); self.n[*n].data = s; }
            Op::SubstringData { .. } | Op::Length { .. } => {}
            Op::SplitText { n, off } => {
                let i = ret.ok_or("no node returned")?;
                let cs: Vec<char> = self.n[*n].data.chars().collect();
                self.n[*n].data = cs[..*off].iter().collect();
                self.n[i].kind = self.n[*n].kind; self.n[i].data = cs[*off..].iter().collect();
                if let Some(p) = self.n[*n].parent { let pos = self.n[p].children.iter().position(|&x| x == *n).unwrap(); self.n[p].children.insert(pos + 1, i); self.n[i].parent = Some(p); }
            }
        }
        Ok(Adopt::Nothing)
    }

    /// the Attr node the library made for set_attribute (`a`, with children `ch`), checked against the call
    pub fn adopt_attr(&mut self, e: usize, a: usize, ch: &[usize], local: &str, value: &str) -> Result<(), String> {
        if self.n[a].kind != K::Attr || self.n[a].name != local { return Err(format!("the element's attribute {:?} is a {:?} named {:?}", local, self.n[a].kind, self.n[a].name)); }
        if let Some(o) = self.n[a].owner { if o != e { return Err("the attribute node already belongs to another element".into()); } }
        self.n[e].attrs.retain(|&x| x != a);
        self.n[e].attrs.push(a); self.n[a].owner = Some(e);
        self.adopt_attr_children(a, ch, value)
    }

    pub fn adopt_attr_children(&mut self, a: usize, ch: &[usize], value: &str) -> Result<(), String> {
        for c in std::mem::take(&mut self.n[a].children) { self.n[c].parent = None; }
        let mut s = String::new();
        for &c in ch { if !matches!(self.n[c].kind, K::Text | K::EntRef) { return Err(format!("attribute child of kind {:?}", self.n[c].kind)); } if self.n[c].parent.is_some() && self.n[c].parent != Some(a) { return Err("a child of the new value is still the child of another node".into()); } self.n[c].parent = Some(a); self.n[a].children.push(c); s.push_str(&self.n[c].data); }
        if s != value { return Err(format!("the attribute's children spell {:?}, the call supplied {:?}", s, value)); }
        Ok(())
    }

    fn check_fresh(&self, i: usize) -> Result<(), String> { if self.n[i].parent.is_some() || self.n[i].owner.is_some() || !self.n[i].children.is_empty() { Err(format!("factory returned node #{} that is already in use", i)) } else { Ok(()) } }

    /// the data a character-data call would leave (None for other calls)
    pub fn result_data(&self, op: &Op) -> Option<(K, String)> {
        let mut m = self.clone();
        let n = match op { Op::SetData { n, .. } | Op::SetNodeValue { n, .. } | Op::AppendData { n, .. } | Op::InsertData { n, .. } | Op::DeleteData { n, .. } | Op::ReplaceData { n, .. } => *n, _ => return None };
        if !matches!(self.n[n].kind, K::Text | K::CData | K::Comment | K::PI) { return None; }
        m.apply(op, None).ok()?;
        Some((self.n[n].kind, m.n[n].data.clone()))
    }

    /// value of a read-only call
    pub fn read(&self, op: &Op) -> Option<String> {
        match op {
            Op::SubstringData { n, off, count } => { let cs: Vec<char> = self.n[*n].data.chars().collect(); let end = off.saturating_add(*count).min(cs.len()); Some(cs[*off..end].iter().collect()) }
            Op::Length { n } => Some(self.n[*n].data.chars().count().to_string()),
            _ => None,
        }
    }

    /// canonical dump of the subtree rooted at `i` in the format of obs::Walker (raw view, no namespaces)
    pub fn dump(&self, i: usize, depth: usize, out: &mut String) {
        let nd = &self.n[i];
        match nd.kind {
            K::Document => { for &c in &nd.children { self.dump(c, 0, out); } }
            K::Element => {
                out.push_str(&format!("E {} {} {}\n", depth, esc_opt(None), esc(&nd.name)));
                let mut lines: Vec<(String, String)> = nd.attrs.iter().map(|&a| (self.n[a].name.clone(), format!("A {} {} {} {}\n", depth + 1, esc_opt(None), esc(&self.n[a].name), esc(&self.attr_value(a))))).collect();
                lines.sort();
                for l in lines { out.push_str(&l.1); }
                for &c in &nd.children { self.dump(c, depth + 1, out); }
            }
            K::Text => out.push_str(&format!("X {} {}\n", depth, esc(&nd.data))),
            K::CData => out.push_str(&format!("K {} {}\n", depth, esc(&nd.data))),
            // the replacement text of a reference reads differently inside an attribute (white space normalised) and in content
            K::EntRef => out.push_str(&format!("R {} {} {}\n", depth, esc(&nd.name), esc(&if nd.name.starts_with("&#") { nd.data.clone() } else { crate::model::ws_to_space(&nd.data) }))),
            K::Comment => out.push_str(&format!("C {} {}\n", depth, esc(&nd.data))),
            K::PI => out.push_str(&format!("P {} {} {}\n", depth, esc(&nd.name), esc(&nd.data))),
            _ => {}
        }
    }
}
