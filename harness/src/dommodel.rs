//! DOM Level 1 reference model (O2) for edit histories.
