//! Pool of live xml_dom nodes, typed DOM calls (edit histories) and their execution against the real
//! library. The harness is the client: a call is recorded before it is invoked and its result after.
use crate::{guarded, norm_msg, Caught};
use xml_dom::{AsNode, Attr, AttrMut, CharacterData, CharacterDataMut, Document, DocumentMut, ElementMut, NamedNodeMap, NamedNodeMapMut, Node, NodeMut, ProcessingInstruction, ProcessingInstructionMut, TextMut, XmlDocument, XmlNode};

#[derive(Clone, Copy, PartialEq, Eq, Debug, Hash)]
pub enum K { Document, Element, Attr, Text, CData, Comment, PI, EntRef, Doctype, Fragment, Other }

pub fn kind_of(n: &XmlNode) -> K {
    match n {
        XmlNode::Document(_) => K::Document, XmlNode::Element(_) => K::Element, XmlNode::Attribute(_) => K::Attr, XmlNode::Text(_) => K::Text,
        XmlNode::CData(_) => K::CData, XmlNode::Comment(_) => K::Comment, XmlNode::PI(_) => K::PI, XmlNode::EntityReference(_) => K::EntRef,
        XmlNode::DocumentType(_) => K::Doctype, XmlNode::DocumentFragment(_) => K::Fragment, _ => K::Other,
    }
}

pub struct H { pub node: XmlNode, pub doc: usize, pub kind: K }

pub struct Pool { pub docs: Vec<XmlDocument>, pub h: Vec<H> }

#[derive(Clone, Debug, PartialEq)]
pub enum Op {
    AppendChild { p: usize, c: usize },
    InsertBefore { p: usize, c: usize, r: Option<usize> },
    ReplaceChild { p: usize, n: usize, o: usize },
    RemoveChild { p: usize, o: usize },
    SetAttribute { e: usize, name: String, value: String },
    RemoveAttribute { e: usize, name: String },
    SetAttributeNode { e: usize, a: usize },
    RemoveAttributeNode { e: usize, a: usize },
    SetNamedItem { e: usize, a: usize },
    RemoveNamedItem { e: usize, name: String },
    CreateElement { d: usize, name: String },
    CreateText { d: usize, data: String },
    CreateComment { d: usize, data: String },
    CreateCData { d: usize, data: String },
    CreatePI { d: usize, target: String, data: String },
    CreateAttribute { d: usize, name: String },
    CreateEntRef { d: usize, name: String },
    SetNodeValue { n: usize, value: String },
    SetData { n: usize, data: String },
    AppendData { n: usize, data: String },
    InsertData { n: usize, off: usize, data: String },
    DeleteData { n: usize, off: usize, count: usize },
    ReplaceData { n: usize, off: usize, count: usize, data: String },
    SubstringData { n: usize, off: usize, count: usize },
    Length { n: usize },
    SplitText { n: usize, off: usize },
}

impl Op {
    pub fn name(&self) -> &'static str {
        match self {
            Op::AppendChild { .. } => "append_child", Op::InsertBefore { .. } => "insert_before", Op::ReplaceChild { .. } => "replace_child", Op::RemoveChild { .. } => "remove_child",
            Op::SetAttribute { .. } => "set_attribute", Op::RemoveAttribute { .. } => "remove_attribute", Op::SetAttributeNode { .. } => "set_attribute_node", Op::RemoveAttributeNode { .. } => "remove_attribute_node",
            Op::SetNamedItem { .. } => "set_named_item", Op::RemoveNamedItem { .. } => "remove_named_item", Op::CreateElement { .. } => "create_element", Op::CreateText { .. } => "create_text_node",
            Op::CreateComment { .. } => "create_comment", Op::CreateCData { .. } => "create_cdata_section", Op::CreatePI { .. } => "create_processing_instruction", Op::CreateAttribute { .. } => "create_attribute",
            Op::CreateEntRef { .. } => "create_entity_reference", Op::SetNodeValue { .. } => "set_node_value", Op::SetData { .. } => "set_data", Op::AppendData { .. } => "append_data",
            Op::InsertData { .. } => "insert_data", Op::DeleteData { .. } => "delete_data", Op::ReplaceData { .. } => "replace_data", Op::SubstringData { .. } => "substring_data", Op::Length { .. } => "length", Op::SplitText { .. } => "split_text",
        }
    }
}

#[derive(Clone, Debug, PartialEq)]
pub enum Ret { Unit, Node(XmlNodeRef), OptNode(Option<XmlNodeRef>), Str(String), Num(usize) }

/// a returned node, identified the way the pool identifies nodes
#[derive(Clone, Debug, PartialEq)]
pub struct XmlNodeRef { pub idx: usize }

#[derive(Clone, Debug, PartialEq, Eq, Hash, PartialOrd, Ord)]
pub enum E { IndexSize, DomStringSize, HierarchyRequest, WrongDocument, InvalidCharacter, NoDataAllowed, NoModificationAllowed, NotFound, NotSupported, InuseAttribute, Unclassified(String), NotCallable }

impl E {
    pub fn name(&self) -> String {
        match self {
            E::IndexSize => "INDEX_SIZE".into(), E::DomStringSize => "DOMSTRING_SIZE".into(), E::HierarchyRequest => "HIERARCHY_REQUEST".into(), E::WrongDocument => "WRONG_DOCUMENT".into(),
            E::InvalidCharacter => "INVALID_CHARACTER".into(), E::NoDataAllowed => "NO_DATA_ALLOWED".into(), E::NoModificationAllowed => "NO_MODIFICATION_ALLOWED".into(), E::NotFound => "NOT_FOUND".into(),
            E::NotSupported => "NOT_SUPPORTED".into(), E::InuseAttribute => "INUSE_ATTRIBUTE".into(), E::Unclassified(s) => format!("unclassified-error({})", s), E::NotCallable => "not-callable".into(),
        }
    }
}

fn map_err(e: xml_dom::error::Error) -> E {
    use xml_dom::error::{DomException as D, Error};
    match e {
        Error::Dom(D::IndexSizeErr) => E::IndexSize, Error::Dom(D::DomStringSizeErr) => E::DomStringSize, Error::Dom(D::HierarchyRequestErr) => E::HierarchyRequest,
        Error::Dom(D::WrongDocumentErr) => E::WrongDocument, Error::Dom(D::InvalidCharacterErr) => E::InvalidCharacter, Error::Dom(D::NoDataAllowedErr) => E::NoDataAllowed,
        Error::Dom(D::NoModificationAllowedErr) => E::NoModificationAllowed, Error::Dom(D::NotFoundErr) => E::NotFound, Error::Dom(D::NotSupportErr) => E::NotSupported,
        Error::Dom(D::InuseAttributeErr) => E::InuseAttribute,
        Error::Info(i) => E::Unclassified(format!("Info::{}", format!("{:?}", i).split('(').next().unwrap_or(""))),
        Error::Parse(_) => E::Unclassified("Parse".into()),
    }
}

pub enum Outcome { Ok(Ret), Err(E), Panic(String) }

impl Pool {
    pub fn new(docs: Vec<XmlDocument>) -> Pool {
        let mut p = Pool { docs, h: vec![] };
        for d in 0..p.docs.len() { let n = p.docs[d].as_node(); p.register_tree(&n, d); }
        p
    }

    pub fn find(&self, n: &XmlNode, doc: usize) -> Option<usize> {
        let (id, k) = (n.id(), kind_of(n));
        self.h.iter().position(|h| h.doc == doc && h.kind == k && h.node.id() == id)
    }

    /// register a node (and nothing else); returns its pool index
    pub fn register(&mut self, n: &XmlNode, doc: usize) -> usize {
        if let Some(i) = self.find(n, doc) { return i; }
        self.h.push(H { node: n.clone(), doc, kind: kind_of(n) });
        self.h.len() - 1
    }

    /// register a node with its attributes, their children, and its descendants (document order)
    pub fn register_tree(&mut self, n: &XmlNode, doc: usize) {
        self.register(n, doc);
        if let Some(attrs) = n.attributes() { for a in attrs.iter() { let an = a.as_node(); if an.id() == 0 { continue; } self.register(&an, doc); for c in an.child_nodes().iter() { self.register(&c, doc); } } }
        if matches!(kind_of(n), K::Document | K::Element | K::Attr) { for c in n.child_nodes().iter() { self.register_tree(&c, doc); } }
    }

    fn ret_node(&mut self, n: XmlNode, doc: usize) -> Ret { Ret::Node(XmlNodeRef { idx: self.register(&n, doc) }) }

    /// execute one call against the real library
    pub fn apply(&mut self, op: &Op) -> Outcome {
        let r = guarded(|| self.apply_inner(op));
        match r {
            Caught::Ok(Ok(v)) => Outcome::Ok(v),
            Caught::Ok(Err(e)) => Outcome::Err(e),
            Caught::Panic { file, msg } => Outcome::Panic(format!("{}/{}", file, norm_msg(&msg))),
            Caught::Budget(n) => Outcome::Panic(format!("step budget exceeded ({})", n)),
        }
    }

    fn node_mut_call(&self, p: usize, f: &dyn Fn(&dyn NodeMutDyn) -> xml_dom::error::Result<XmlNode>) -> Result<XmlNode, E> {
        match &self.h[p].node {
            XmlNode::Document(v) => f(v).map_err(map_err), XmlNode::Element(v) => f(v).map_err(map_err), XmlNode::Attribute(v) => f(v).map_err(map_err),
            XmlNode::Text(v) => f(v).map_err(map_err), XmlNode::Comment(v) => f(v).map_err(map_err), XmlNode::CData(v) => f(v).map_err(map_err), XmlNode::PI(v) => f(v).map_err(map_err),
            _ => Err(E::NotCallable),
        }
    }

    fn apply_inner(&mut self, op: &Op) -> Result<Ret, E> {
        match op {
            Op::AppendChild { p, c } => { let c_node = self.h[*c].node.clone(); let n = self.node_mut_call(*p, &|m| m.dyn_append_child(c_node.clone()))?; let d = self.h[*c].doc; Ok(self.ret_node(n, d)) }
            Op::InsertBefore { p, c, r } => { let c_node = self.h[*c].node.clone(); let r_node = r.map(|r| self.h[r].node.clone()); let n = self.node_mut_call(*p, &|m| m.dyn_insert_before(c_node.clone(), r_node.as_ref()))?; let d = self.h[*c].doc; Ok(self.ret_node(n, d)) }
            Op::ReplaceChild { p, n, o } => { let n_node = self.h[*n].node.clone(); let o_node = self.h[*o].node.clone(); let x = self.node_mut_call(*p, &|m| m.dyn_replace_child(n_node.clone(), &o_node))?; let d = self.h[*o].doc; Ok(self.ret_node(x, d)) }
            Op::RemoveChild { p, o } => { let o_node = self.h[*o].node.clone(); let x = self.node_mut_call(*p, &|m| m.dyn_remove_child(&o_node))?; let d = self.h[*o].doc; Ok(self.ret_node(x, d)) }
            Op::SetAttribute { e, name, value } => { match &self.h[*e].node { XmlNode::Element(el) => el.set_attribute(name, value).map_err(map_err).map(|_| Ret::Unit), _ => Err(E::NotCallable) } }
            Op::RemoveAttribute { e, name } => { match &self.h[*e].node { XmlNode::Element(el) => el.remove_attribute(name).map_err(map_err).map(|_| Ret::Unit), _ => Err(E::NotCallable) } }
            Op::SetAttributeNode { e, a } => {
                let (el, at) = match (&self.h[*e].node, &self.h[*a].node) { (XmlNode::Element(el), XmlNode::Attribute(at)) => (el.clone(), at.clone()), _ => return Err(E::NotCallable) };
                let d = self.h[*e].doc;
                let r = el.set_attribute_node(at).map_err(map_err)?;
                Ok(Ret::OptNode(r.map(|x| XmlNodeRef { idx: self.register(&x.as_node(), d) })))
            }
            Op::RemoveAttributeNode { e, a } => {
                let (el, at) = match (&self.h[*e].node, &self.h[*a].node) { (XmlNode::Element(el), XmlNode::Attribute(at)) => (el.clone(), at.clone()), _ => return Err(E::NotCallable) };
                let d = self.h[*e].doc;
                let r = el.remove_attribute_node(at).map_err(map_err)?;
                Ok(self.ret_node(r.as_node(), d))
            }
            Op::SetNamedItem { e, a } => {
                let (el, at) = match (&self.h[*e].node, &self.h[*a].node) { (XmlNode::Element(el), XmlNode::Attribute(at)) => (el.clone(), at.clone()), _ => return Err(E::NotCallable) };
                let d = self.h[*e].doc;
                let map = el.attributes().ok_or(E::NotCallable)?;
                let r = map.set_named_item(at).map_err(map_err)?;
                Ok(Ret::OptNode(r.map(|x| XmlNodeRef { idx: self.register(&x.as_node(), d) })))
            }
            Op::RemoveNamedItem { e, name } => {
                let el = match &self.h[*e].node { XmlNode::Element(el) => el.clone(), _ => return Err(E::NotCallable) };
                let d = self.h[*e].doc;
                let map = el.attributes().ok_or(E::NotCallable)?;
                let r = map.remove_named_item(name).map_err(map_err)?;
                Ok(self.ret_node(r.as_node(), d))
            }
            Op::CreateElement { d, name } => { let x = self.docs[*d].create_element(name).map_err(map_err)?; Ok(self.ret_node(x.as_node(), *d)) }
            Op::CreateText { d, data } => { let x = self.docs[*d].create_text_node(data); Ok(self.ret_node(x.as_node(), *d)) }
            Op::CreateComment { d, data } => { let x = self.docs[*d].create_comment(data); Ok(self.ret_node(x.as_node(), *d)) }
            Op::CreateCData { d, data } => { let x = self.docs[*d].create_cdata_section(data); Ok(self.ret_node(x.as_node(), *d)) }
            Op::CreatePI { d, target, data } => { let x = self.docs[*d].create_processing_instruction(target, data).map_err(map_err)?; Ok(self.ret_node(x.as_node(), *d)) }
            Op::CreateAttribute { d, name } => { let x = self.docs[*d].create_attribute(name).map_err(map_err)?; Ok(self.ret_node(x.as_node(), *d)) }
            Op::CreateEntRef { d, name } => { let x = self.docs[*d].create_entity_reference(name).map_err(map_err)?; Ok(self.ret_node(x.as_node(), *d)) }
            Op::SetNodeValue { n, value } => {
                match &self.h[*n].node {
                    XmlNode::Document(v) => v.set_node_value(value), XmlNode::Element(v) => v.set_node_value(value), XmlNode::Attribute(v) => v.set_value(value), XmlNode::Text(v) => v.set_node_value(value),
                    XmlNode::Comment(v) => v.set_node_value(value), XmlNode::CData(v) => v.set_node_value(value), XmlNode::PI(v) => v.set_node_value(value), _ => return Err(E::NotCallable),
                }.map_err(map_err).map(|_| Ret::Unit)
            }
            Op::SetData { n, data } => match &self.h[*n].node { XmlNode::Text(v) => v.set_data(data), XmlNode::Comment(v) => v.set_data(data), XmlNode::CData(v) => v.set_data(data), XmlNode::PI(v) => ProcessingInstructionMut::set_data(v, data), _ => return Err(E::NotCallable) }.map_err(map_err).map(|_| Ret::Unit),
            Op::AppendData { n, data } => match &self.h[*n].node { XmlNode::Text(v) => v.append_data(data), XmlNode::Comment(v) => v.append_data(data), XmlNode::CData(v) => v.append_data(data), _ => return Err(E::NotCallable) }.map_err(map_err).map(|_| Ret::Unit),
            Op::InsertData { n, off, data } => match &self.h[*n].node { XmlNode::Text(v) => v.insert_data(*off, data), XmlNode::Comment(v) => v.insert_data(*off, data), XmlNode::CData(v) => v.insert_data(*off, data), _ => return Err(E::NotCallable) }.map_err(map_err).map(|_| Ret::Unit),
            Op::DeleteData { n, off, count } => match &self.h[*n].node { XmlNode::Text(v) => v.delete_data(*off, *count), XmlNode::Comment(v) => v.delete_data(*off, *count), XmlNode::CData(v) => v.delete_data(*off, *count), _ => return Err(E::NotCallable) }.map_err(map_err).map(|_| Ret::Unit),
            Op::ReplaceData { n, off, count, data } => match &self.h[*n].node { XmlNode::Text(v) => v.replace_data(*off, *count, data), XmlNode::Comment(v) => v.replace_data(*off, *count, data), XmlNode::CData(v) => v.replace_data(*off, *count, data), _ => return Err(E::NotCallable) }.map_err(map_err).map(|_| Ret::Unit),
            Op::SubstringData { n, off, count } => match &self.h[*n].node { XmlNode::Text(v) => v.substring_data(*off, *count), XmlNode::Comment(v) => v.substring_data(*off, *count), XmlNode::CData(v) => v.substring_data(*off, *count), _ => return Err(E::NotCallable) }.map_err(map_err).map(Ret::Str),
            Op::Length { n } => match &self.h[*n].node { XmlNode::Text(v) => Ok(Ret::Num(v.length())), XmlNode::Comment(v) => Ok(Ret::Num(v.length())), XmlNode::CData(v) => Ok(Ret::Num(v.length())), _ => Err(E::NotCallable) },
            Op::SplitText { n, off } => {
                let d = self.h[*n].doc;
                match &self.h[*n].node {
                    XmlNode::Text(v) => { let x = v.split_text(*off).map_err(map_err)?; Ok(self.ret_node(x.as_node(), d)) }
                    XmlNode::CData(v) => { let x = v.split_text(*off).map_err(map_err)?; Ok(self.ret_node(x.as_node(), d)) }
                    _ => Err(E::NotCallable),
                }
            }
        }
    }

    /// the data of a character-data / PI / attribute node as the library reports it
    pub fn data_of(&self, i: usize) -> Option<String> {
        match &self.h[i].node {
            XmlNode::Text(v) => v.data().ok(), XmlNode::Comment(v) => v.data().ok(), XmlNode::CData(v) => v.data().ok(), XmlNode::PI(v) => Some(ProcessingInstruction::data(v)),
            XmlNode::Attribute(v) => v.value().ok(), XmlNode::EntityReference(v) => v.value().ok(), _ => None,
        }
    }

    pub fn describe(&self, i: usize) -> String {
        let h = &self.h[i];
        format!("#{}:{:?}{}[{}]", i, h.kind, if h.doc != 0 { format!("@doc{}", h.doc) } else { String::new() }, match h.kind { K::Element | K::Attr | K::PI | K::EntRef => h.node.node_name(), K::Text | K::CData | K::Comment => crate::util::truncate(&self.data_of(i).unwrap_or_default(), 12), _ => String::new() })
    }

    pub fn describe_op(&self, op: &Op) -> String {
        let d = |i: &usize| self.describe(*i);
        match op {
            Op::AppendChild { p, c } => format!("{}.append_child({})", d(p), d(c)),
            Op::InsertBefore { p, c, r } => format!("{}.insert_before({}, {})", d(p), d(c), r.as_ref().map(|r| d(r)).unwrap_or_else(|| "None".into())),
            Op::ReplaceChild { p, n, o } => format!("{}.replace_child({}, {})", d(p), d(n), d(o)),
            Op::RemoveChild { p, o } => format!("{}.remove_child({})", d(p), d(o)),
            Op::SetAttribute { e, name, value } => format!("{}.set_attribute({:?}, {:?})", d(e), name, value),
            Op::RemoveAttribute { e, name } => format!("{}.remove_attribute({:?})", d(e), name),
            Op::SetAttributeNode { e, a } => format!("{}.set_attribute_node({})", d(e), d(a)),
            Op::RemoveAttributeNode { e, a } => format!("{}.remove_attribute_node({})", d(e), d(a)),
            Op::SetNamedItem { e, a } => format!("{}.attributes().set_named_item({})", d(e), d(a)),
            Op::RemoveNamedItem { e, name } => format!("{}.attributes().remove_named_item({:?})", d(e), name),
            Op::CreateElement { d: dd, name } => format!("doc{}.create_element({:?})", dd, name),
            Op::CreateText { d: dd, data } => format!("doc{}.create_text_node({:?})", dd, data),
            Op::CreateComment { d: dd, data } => format!("doc{}.create_comment({:?})", dd, data),
            Op::CreateCData { d: dd, data } => format!("doc{}.create_cdata_section({:?})", dd, data),
            Op::CreatePI { d: dd, target, data } => format!("doc{}.create_processing_instruction({:?}, {:?})", dd, target, data),
            Op::CreateAttribute { d: dd, name } => format!("doc{}.create_attribute({:?})", dd, name),
            Op::CreateEntRef { d: dd, name } => format!("doc{}.create_entity_reference({:?})", dd, name),
            Op::SetNodeValue { n, value } => format!("{}.set_node_value({:?})", d(n), value),
            Op::SetData { n, data } => format!("{}.set_data({:?})", d(n), data),
            Op::AppendData { n, data } => format!("{}.append_data({:?})", d(n), data),
            Op::InsertData { n, off, data } => format!("{}.insert_data({}, {:?})", d(n), off, data),
            Op::DeleteData { n, off, count } => format!("{}.delete_data({}, {})", d(n), off, count),
            Op::ReplaceData { n, off, count, data } => format!("{}.replace_data({}, {}, {:?})", d(n), off, count, data),
            Op::SubstringData { n, off, count } => format!("{}.substring_data({}, {})", d(n), off, count),
            Op::Length { n } => format!("{}.length()", d(n)),
            Op::SplitText { n, off } => format!("{}.split_text({})", d(n), off),
        }
    }
}

/// object-safe view of NodeMut (the trait has default methods but xml_dom exposes no dyn-friendly alias)
pub trait NodeMutDyn {
    fn dyn_append_child(&self, c: XmlNode) -> xml_dom::error::Result<XmlNode>;
    fn dyn_insert_before(&self, c: XmlNode, r: Option<&XmlNode>) -> xml_dom::error::Result<XmlNode>;
    fn dyn_replace_child(&self, n: XmlNode, o: &XmlNode) -> xml_dom::error::Result<XmlNode>;
    fn dyn_remove_child(&self, o: &XmlNode) -> xml_dom::error::Result<XmlNode>;
}
impl<T: NodeMut> NodeMutDyn for T {
    fn dyn_append_child(&self, c: XmlNode) -> xml_dom::error::Result<XmlNode> { self.append_child(c) }
    fn dyn_insert_before(&self, c: XmlNode, r: Option<&XmlNode>) -> xml_dom::error::Result<XmlNode> { self.insert_before(c, r) }
    fn dyn_replace_child(&self, n: XmlNode, o: &XmlNode) -> xml_dom::error::Result<XmlNode> { self.replace_child(n, o) }
    fn dyn_remove_child(&self, o: &XmlNode) -> xml_dom::error::Result<XmlNode> { self.remove_child(o) }
}

#[allow(dead_code)]
fn _use(_: &dyn Document) {}
