//! SplitMix64 / xoshiro256** PRNG (no external crates).
#[derive(Clone)]
pub struct Rng { s: [u64; 4] }

pub fn splitmix(x: &mut u64) -> u64 {
    *x = x.wrapping_add(0x9E3779B97F4A7C15);
    let mut z = *x;
    z = (z ^ (z >> 30)).wrapping_mul(0xBF58476D1CE4E5B9);
    z = (z ^ (z >> 27)).wrapping_mul(0x94D049BB133111EB);
    z ^ (z >> 31)
}

pub fn mix(parts: &[u64]) -> u64 {
    let mut h = 0x243F6A8885A308D3u64;
    for p in parts {
        h ^= *p;
        let mut t = h;
        h = splitmix(&mut t);
    }
    h
}

impl Rng {
    pub fn new(seed: u64) -> Rng {
        let mut x = seed;
        Rng { s: [splitmix(&mut x), splitmix(&mut x), splitmix(&mut x), splitmix(&mut x)] }
    }
    pub fn next(&mut self) -> u64 {
        let r = self.s[1].wrapping_mul(5).rotate_left(7).wrapping_mul(9);
        let t = self.s[1] << 17;
        self.s[2] ^= self.s[0];
        self.s[3] ^= self.s[1];
        self.s[1] ^= self.s[2];
        self.s[0] ^= self.s[3];
        self.s[2] ^= t;
        self.s[3] = self.s[3].rotate_left(45);
        r
    }
    /// uniform in 0..n (n > 0)
    pub fn below(&mut self, n: usize) -> usize { (self.next() % (n as u64)) as usize }
    pub fn range(&mut self, lo: usize, hi: usize) -> usize { lo + self.below(hi - lo + 1) }
    /// true with probability num/den
    pub fn chance(&mut self, num: u32, den: u32) -> bool { (self.next() % den as u64) < num as u64 }
    pub fn pick<'a, T>(&mut self, v: &'a [T]) -> &'a T { &v[self.below(v.len())] }
    pub fn pick_s(&mut self, v: &[&'static str]) -> &'static str { v[self.below(v.len())] }
    pub fn weighted(&mut self, w: &[u32]) -> usize {
        let tot: u32 = w.iter().sum();
        let mut r = (self.next() % tot as u64) as u32;
        for (i, x) in w.iter().enumerate() { if r < *x { return i; } r -= *x; }
        w.len() - 1
    }
    pub fn shuffle<T>(&mut self, v: &mut [T]) {
        for i in (1..v.len()).rev() { let j = self.below(i + 1); v.swap(i, j); }
    }
}
