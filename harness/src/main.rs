//! xv - worker binary of the xml-rs runtime-monitoring harness.
//!
//! usage: xv <PROP> --seed N --tier quick|thorough --shard I/N --out FILE [--start K] [--only K]
//!        xv witness <PROP> <hex-field>...        (replay the witness of a known finding)
mod model;
mod obs;
mod refxml;
mod rng;
mod spec;
mod shrink;
mod util;
mod props;
mod xp;
mod dommodel;
mod dompool;

use std::collections::BTreeMap;
use std::io::Write;
use util::jstr;

pub struct Ctx {
    pub prop: String,
    pub seed: u64,
    pub thorough: bool,
    pub shard: u64,
    pub nshards: u64,
    pub start: u64,
    pub only: Option<u64>,
    pub family: Option<String>,
    out: Box<dyn Write + Send>,
    pub out_path: Option<String>,
    pub evaluations: u64,
    pub inconclusive: BTreeMap<String, u64>,
    pub hist: BTreeMap<String, u64>,
    pub sigs: BTreeMap<String, u64>,
    pub distinct: std::collections::HashSet<u64>,
    pub samples: Vec<String>,
    pub max_steps: u64,
    pub notes: Vec<String>,
}

impl Ctx {
    pub fn mine(&self, i: u64) -> bool {
        if let Some(o) = self.only { return i == o; }
        i >= self.start && i % self.nshards == self.shard
    }
    pub fn rng(&self, i: u64) -> rng::Rng { rng::Rng::new(rng::mix(&[self.seed, util::fnv(&self.prop), i])) }
    pub fn line(&mut self, s: &str) { let _ = self.out.write_all(s.as_bytes()); let _ = self.out.write_all(b"\n"); let _ = self.out.flush(); }
    /// announce a case before executing it (an open `b` record identifies the case that killed the process)
    pub fn begin(&mut self, i: u64, brief: &str) {
        self.evaluations += 1;
        let l = format!("{{\"t\":\"b\",\"i\":{},\"brief\":{}}}", i, jstr(&util::truncate(brief, 300)));
        self.line(&l);
    }
    pub fn count(&mut self, k: &str) { *self.hist.entry(k.to_string()).or_insert(0) += 1; }
    pub fn count_n(&mut self, k: &str, n: u64) { *self.hist.entry(k.to_string()).or_insert(0) += n; }
    pub fn nontrivial(&mut self, key: &str) { self.distinct.insert(util::fnv(key)); }
    pub fn sample(&mut self, s: &str) { if self.samples.len() < 4 { self.samples.push(util::truncate(s, 400)); } }
    pub fn inconclusive(&mut self, why: &str) { *self.inconclusive.entry(why.to_string()).or_insert(0) += 1; }
    pub fn steps(&mut self, n: u64) { if n > self.max_steps { self.max_steps = n; } }
    /// record a violation: `sig` is the closed-vocabulary signature class, `fields` the concrete case
    pub fn violation(&mut self, i: u64, sig: &str, detail: &str, fields: &[(&str, &str)]) {
        let n = self.sigs.entry(sig.to_string()).or_insert(0);
        *n += 1;
        if *n <= 3 {
            let mut f = String::new();
            for (k, v) in fields { f.push_str(&format!(",{}:{}", jstr(k), jstr(&util::truncate(v, 4000)))); }
            let l = format!("{{\"t\":\"v\",\"i\":{},\"sig\":{},\"detail\":{}{}}}", i, jstr(sig), jstr(&util::truncate(detail, 1500)), f);
            self.line(&l);
        }
    }
    pub fn finish(&mut self) {
        let mut s = String::from("{\"t\":\"s\"");
        s.push_str(&format!(",\"evaluations\":{}", self.evaluations));
        s.push_str(&format!(",\"max_steps\":{}", self.max_steps));
        let m = |m: &BTreeMap<String, u64>| { let v: Vec<String> = m.iter().map(|(k, v)| format!("{}:{}", jstr(k), v)).collect(); format!("{{{}}}", v.join(",")) };
        s.push_str(&format!(",\"inconclusive\":{}", m(&self.inconclusive)));
        s.push_str(&format!(",\"hist\":{}", m(&self.hist)));
        s.push_str(&format!(",\"sigs\":{}", m(&self.sigs)));
        let sm: Vec<String> = self.samples.iter().map(|x| jstr(x)).collect();
        s.push_str(&format!(",\"samples\":[{}]", sm.join(",")));
        let nt: Vec<String> = self.notes.iter().map(|x| jstr(x)).collect();
        s.push_str(&format!(",\"notes\":[{}]", nt.join(",")));
        // the hashes of the distinct non-trivial cases go to a side file (8 bytes each) so that the supervisor can count the union
        s.push_str(&format!(",\"distinct_count\":{}", self.distinct.len()));
        if let Some(p) = &self.out_path { let mut bytes: Vec<u8> = Vec::with_capacity(self.distinct.len() * 8); for x in self.distinct.iter() { bytes.extend_from_slice(&x.to_le_bytes()); } let _ = std::fs::write(format!("{}.distinct", p), bytes); }
        s.push('}');
        self.line(&s);
    }
}

// ---------------------------------------------------------------------------------------------
// panic capture

thread_local! { static LAST_PANIC: std::cell::RefCell<Option<(String, String)>> = const { std::cell::RefCell::new(None) }; }

pub enum Caught<T> { Ok(T), Panic { file: String, msg: String }, Budget(u64) }

/// run a closure, catching panics; the panic hook records location and message
pub fn guarded<T>(f: impl FnOnce() -> T) -> Caught<T> {
    LAST_PANIC.with(|p| *p.borrow_mut() = None);
    let r = std::panic::catch_unwind(std::panic::AssertUnwindSafe(f));
    xml_nom::verif::set_budget(u64::MAX);
    match r {
        Ok(v) => Caught::Ok(v),
        Err(e) => {
            if let Some(b) = e.downcast_ref::<xml_nom::verif::BudgetExceeded>() { return Caught::Budget(b.0); }
            let (file, msg) = LAST_PANIC.with(|p| p.borrow_mut().take()).unwrap_or(("?".into(), "?".into()));
            Caught::Panic { file, msg }
        }
    }
}

/// normalise a panic message into a signature component (drop numbers and quoted data)
pub fn norm_msg(m: &str) -> String {
    let mut o = String::new();
    let mut in_q = false;
    for c in m.chars() {
        if c == '"' || c == '`' { in_q = !in_q; continue; }
        if in_q { continue; }
        if c.is_ascii_digit() { if !o.ends_with('#') { o.push('#'); } continue; }
        if c == '\n' { break; }
        o.push(c);
        if o.len() > 80 { break; }
    }
    o.trim().to_string()
}

fn install_hook() {
    std::panic::set_hook(Box::new(|info| {
        let loc = info.location().map(|l| l.file().to_string()).unwrap_or_default();
        let msg = if let Some(s) = info.payload().downcast_ref::<&str>() { s.to_string() } else if let Some(s) = info.payload().downcast_ref::<String>() { s.clone() } else if info.payload().downcast_ref::<xml_nom::verif::BudgetExceeded>().is_some() { "budget".to_string() } else { "<non-string payload>".to_string() };
        // strip the path prefix up to the crate directory so that signatures do not depend on where /repo lives
        let loc = loc.trim_start_matches("/repo/").to_string();
        LAST_PANIC.with(|p| *p.borrow_mut() = Some((loc, msg)));
    }));
}

fn main() {
    let args: Vec<String> = std::env::args().collect();
    if args.len() < 2 { eprintln!("usage: xv <PROP> ..."); std::process::exit(2); }
    install_hook();
    refxml::init();
    let mut prop = args[1].clone();
    let mut ctx = Ctx {
        prop: String::new(), seed: 1, thorough: false, shard: 0, nshards: 1, start: 0, only: None, family: None,
        out: Box::new(std::io::stdout()), out_path: None, evaluations: 0, inconclusive: BTreeMap::new(), hist: BTreeMap::new(), sigs: BTreeMap::new(),
        distinct: Default::default(), samples: vec![], max_steps: 0, notes: vec![],
    };
    let mut witness: Option<Vec<String>> = None;
    let mut i = 2;
    if prop == "probe" {
        // xv probe <doc> <expr> [prefix=uri ...]: show xml-rs / O2 / O3 outcomes (diagnostic aid, not a check)
        let h = std::thread::Builder::new().stack_size(8 << 20).spawn(move || { install_hook(); props::xpathp::probe(&args[2], &args[3], &args[4..]); }).unwrap();
        let _ = h.join();
        return;
    }
    if prop == "witness" {
        prop = args[2].clone();
        let mut f = vec![];
        for a in &args[3..] { f.push(util::hex_decode(a).unwrap_or_else(|| { eprintln!("bad hex field"); std::process::exit(2) })); }
        witness = Some(f);
        i = args.len();
    }
    while i < args.len() {
        let a = args[i].as_str();
        let v = args.get(i + 1).cloned().unwrap_or_default();
        match a {
            "--seed" => { ctx.seed = v.parse().unwrap_or(1); i += 2; }
            "--tier" => { ctx.thorough = v == "thorough"; i += 2; }
            "--shard" => { let mut p = v.split('/'); ctx.shard = p.next().unwrap().parse().unwrap(); ctx.nshards = p.next().unwrap().parse().unwrap(); i += 2; }
            "--start" => { ctx.start = v.parse().unwrap(); i += 2; }
            "--only" => { ctx.only = Some(v.parse().unwrap()); i += 2; }
            "--family" => { ctx.family = Some(v); i += 2; }
            "--out" => { ctx.out_path = Some(v.clone()); ctx.out = Box::new(std::fs::OpenOptions::new().create(true).append(true).open(&v).expect("open out")); i += 2; }
            _ => { eprintln!("unknown argument {}", a); std::process::exit(2); }
        }
    }
    ctx.prop = prop.clone();
    // run on a thread with the stack a caller's main thread has (8 MiB)
    let h = std::thread::Builder::new().stack_size(8 << 20).spawn(move || {
        install_hook();
        let mut ctx = ctx;
        if let Some(w) = witness {
            let r = props::witness(&prop, &w, &mut ctx);
            match r { Some(sig) => println!("WITNESS-FAILS {}", sig), None => println!("WITNESS-HOLDS") }
            return;
        }
        if !props::run(&prop, &mut ctx) { eprintln!("unknown property {}", prop); std::process::exit(2); }
        ctx.finish();
    }).unwrap();
    if h.join().is_err() { std::process::exit(3); }
}
