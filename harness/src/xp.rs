//! XPath expression model, generator, renderer and reference evaluator (O2).
