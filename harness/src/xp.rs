//! XPath 1.0: expression model (AST), renderer with spelling choices, generator, shrinker and the
//! reference evaluator (O2) over a reference tree built from a DocModel.
//! Written from the XPath 1.0 recommendation (sections 2-5), not from xml-rs.
use crate::model::{self, AttDefault, AttType, Decl, Doc, Entities, Node};
use crate::rng::Rng;

// ------------------------------------------------------------------------------------------------
// reference tree (XPath data model, section 5)

#[derive(Clone, Copy, PartialEq, Debug)]
pub enum RKind { Root, Elem, Attr, Ns, Text, Comment, PI }

#[derive(Clone, Debug)]
pub struct RNode {
    pub kind: RKind,
    pub parent: Option<usize>,
    pub children: Vec<usize>,
    pub attrs: Vec<usize>,
    pub nss: Vec<usize>,
    pub prefix: Option<String>,
    pub local: String,
    pub uri: Option<String>,
    pub value: String,
    pub locator: String,
}

pub struct RTree { pub nodes: Vec<RNode>, pub attr_ord: u8 }

impl RTree {
    pub fn build(doc: &Doc) -> RTree { Self::build_ord(doc, 0) }

    /// `ord` chooses the relative order of the attribute nodes of one element, which XPath leaves to the
    /// implementation: 0 by qualified name, 1 the reverse, 2 and 3 rotated by one to the left and to the right
    pub fn build_ord(doc: &Doc, ord: u8) -> RTree {
        let ents = Entities::of(doc);
        let mut t = RTree { nodes: vec![], attr_ord: ord };
        t.nodes.push(RNode { kind: RKind::Root, parent: None, children: vec![], attrs: vec![], nss: vec![], prefix: None, local: String::new(), uri: None, value: String::new(), locator: "/".into() });
        let mut idx = 0usize;
        let mut add_misc = |t: &mut RTree, m: &model::Misc, idx: &mut usize| {
            let (kind, local, value) = match m { model::Misc::Comment(c) => (RKind::Comment, String::new(), model::norm_eol(c)), model::Misc::PI(tg, d) => (RKind::PI, tg.clone(), model::norm_eol(d.as_deref().unwrap_or(""))) };
            let id = t.nodes.len();
            t.nodes.push(RNode { kind, parent: Some(0), children: vec![], attrs: vec![], nss: vec![], prefix: None, local, uri: None, value, locator: format!("/{}", *idx) });
            t.nodes[0].children.push(id);
            *idx += 1;
        };
        for m in &doc.pre { add_misc(&mut t, m, &mut idx); }
        for m in &doc.mid { add_misc(&mut t, m, &mut idx); }
        let scope: Vec<(Option<String>, String)> = vec![(Some("xml".to_string()), model::XML_NS.to_string())];
        t.elem(doc, &ents, &doc.root, 0, format!("/{}", idx), &scope);
        idx += 1;
        for m in &doc.post { add_misc(&mut t, m, &mut idx); }
        t
    }

    fn att_defs(doc: &Doc, e: &model::Elem) -> Vec<model::AttDef> {
        let mut v: Vec<model::AttDef> = vec![];
        if let Some(dt) = &doc.doctype { if let Some(ds) = &dt.subset { for d in ds { if let Decl::Attlist(p, l, defs) = d {
            if p == &e.prefix && l == &e.local { for df in defs { if !v.iter().any(|x| x.prefix == df.prefix && x.local == df.local) { v.push(df.clone()); } } }
        } } } }
        v
    }

    fn elem(&mut self, doc: &Doc, ents: &Entities, e: &model::Elem, parent: usize, locator: String, scope: &[(Option<String>, String)]) -> usize {
        // in-scope namespaces
        let mut sc: Vec<(Option<String>, String)> = scope.to_vec();
        for (p, u) in &e.nsdecls { sc.retain(|x| &x.0 != p); sc.push((p.clone(), u.clone())); }
        let lookup = |p: Option<&str>| -> Option<String> { sc.iter().find(|x| x.0.as_deref() == p).map(|x| x.1.clone()).filter(|u| !u.is_empty()) };
        let id = self.nodes.len();
        self.nodes.push(RNode { kind: RKind::Elem, parent: Some(parent), children: vec![], attrs: vec![], nss: vec![], prefix: e.prefix.clone(), local: e.local.clone(), uri: lookup(e.prefix.as_deref()), value: String::new(), locator: locator.clone() });
        self.nodes[parent].children.push(id);
        // namespace nodes (sorted by prefix for a canonical order)
        let mut nss: Vec<(Option<String>, String)> = sc.iter().filter(|x| !x.1.is_empty()).cloned().collect();
        nss.sort();
        for (p, u) in nss {
            let nid = self.nodes.len();
            self.nodes.push(RNode { kind: RKind::Ns, parent: Some(id), children: vec![], attrs: vec![], nss: vec![], prefix: None, local: p.clone().unwrap_or_default(), uri: None, value: u.clone(), locator: format!("{}#{}={}", locator, p.unwrap_or_default(), u) });
            self.nodes[id].nss.push(nid);
        }
        // attributes: written ones, then defaulted ones; canonical order by qualified name
        let defs = Self::att_defs(doc, e);
        let mut atts: Vec<(String, Option<String>, String, String)> = vec![];
        for a in &e.attrs {
            let cd = defs.iter().find(|d| d.prefix == a.prefix && d.local == a.local).map(|d| d.ty == AttType::CData).unwrap_or(true);
            atts.push((qn(&a.prefix, &a.local), a.prefix.clone(), a.local.clone(), model::attr_normalized(&a.value, ents, cd)));
        }
        for d in &defs { if let AttDefault::Value(_, v) = &d.default { if !e.attrs.iter().any(|a| a.prefix == d.prefix && a.local == d.local) { atts.push((qn(&d.prefix, &d.local), d.prefix.clone(), d.local.clone(), model::attr_normalized(v, ents, d.ty == AttType::CData))); } } }
        atts.sort();
        match self.attr_ord { 1 => atts.reverse(), 2 => { if atts.len() > 1 { atts.rotate_left(1); } } 3 => { if atts.len() > 1 { atts.rotate_right(1); } } _ => {} }
        for (q, p, l, v) in atts {
            let aid = self.nodes.len();
            let uri = if p.is_some() { lookup(p.as_deref()) } else { None };
            self.nodes.push(RNode { kind: RKind::Attr, parent: Some(id), children: vec![], attrs: vec![], nss: vec![], prefix: p, local: l, uri, value: v, locator: format!("{}@{}", locator, q) });
            self.nodes[id].attrs.push(aid);
        }
        // children (merged text view; no empty text nodes)
        let mut idx = 0usize;
        let mut run: Option<String> = None;
        let flush = |t: &mut RTree, run: &mut Option<String>, idx: &mut usize| {
            if let Some(s) = run.take() { if !s.is_empty() {
                let tid = t.nodes.len();
                t.nodes.push(RNode { kind: RKind::Text, parent: Some(id), children: vec![], attrs: vec![], nss: vec![], prefix: None, local: String::new(), uri: None, value: s, locator: format!("{}/{}", locator, *idx) });
                t.nodes[id].children.push(tid);
                *idx += 1;
            } }
        };
        for c in &e.children {
            let piece = match c { Node::Text(s) => Some(model::norm_eol(s)), Node::CData(s) => Some(model::norm_eol(s)), Node::CharRef(ch, _) => Some(ch.to_string()), Node::EntRef(n) => Some(ents.content_value(n)), _ => None };
            if let Some(p) = piece { run.get_or_insert_with(String::new).push_str(&p); continue; }
            flush(self, &mut run, &mut idx);
            match c {
                Node::Elem(ce) => { self.elem(doc, ents, ce, id, format!("{}/{}", locator, idx), &sc); }
                Node::Comment(s) => { let cid = self.nodes.len(); self.nodes.push(RNode { kind: RKind::Comment, parent: Some(id), children: vec![], attrs: vec![], nss: vec![], prefix: None, local: String::new(), uri: None, value: model::norm_eol(s), locator: format!("{}/{}", locator, idx) }); self.nodes[id].children.push(cid); }
                Node::PI(tg, d) => { let cid = self.nodes.len(); self.nodes.push(RNode { kind: RKind::PI, parent: Some(id), children: vec![], attrs: vec![], nss: vec![], prefix: None, local: tg.clone(), uri: None, value: model::norm_eol(d.as_deref().unwrap_or("")), locator: format!("{}/{}", locator, idx) }); self.nodes[id].children.push(cid); }
                _ => unreachable!(),
            }
            idx += 1;
        }
        flush(self, &mut run, &mut idx);
        id
    }

    pub fn string_value(&self, n: usize) -> String {
        let nd = &self.nodes[n];
        match nd.kind {
            RKind::Root | RKind::Elem => { let mut s = String::new(); self.collect_text(n, &mut s); s }
            _ => nd.value.clone(),
        }
    }
    fn collect_text(&self, n: usize, s: &mut String) {
        for &c in &self.nodes[n].children { match self.nodes[c].kind { RKind::Text => s.push_str(&self.nodes[c].value), RKind::Elem => self.collect_text(c, s), _ => {} } }
    }
    /// document order key: arena index (nodes are created in document order: element, its namespace
    /// nodes, its attributes, its children)
    pub fn descendants(&self, n: usize, out: &mut Vec<usize>) { for &c in &self.nodes[n].children { out.push(c); self.descendants(c, out); } }
    pub fn is_ancestor(&self, a: usize, n: usize) -> bool { let mut p = self.nodes[n].parent; while let Some(x) = p { if x == a { return true; } p = self.nodes[x].parent; } false }
}

fn qn(p: &Option<String>, l: &str) -> String { match p { Some(p) => format!("{}:{}", p, l), None => l.to_string() } }

// ------------------------------------------------------------------------------------------------
// expression model

#[derive(Clone, Copy, PartialEq, Debug)]
pub enum Axis { Ancestor, AncestorOrSelf, Attribute, Child, Descendant, DescendantOrSelf, Following, FollowingSibling, Namespace, Parent, Preceding, PrecedingSibling, SelfAxis }
pub const AXES: &[Axis] = &[Axis::Ancestor, Axis::AncestorOrSelf, Axis::Attribute, Axis::Child, Axis::Descendant, Axis::DescendantOrSelf, Axis::Following, Axis::FollowingSibling, Axis::Namespace, Axis::Parent, Axis::Preceding, Axis::PrecedingSibling, Axis::SelfAxis];
impl Axis {
    pub fn name(self) -> &'static str {
        match self { Axis::Ancestor => "ancestor", Axis::AncestorOrSelf => "ancestor-or-self", Axis::Attribute => "attribute", Axis::Child => "child", Axis::Descendant => "descendant", Axis::DescendantOrSelf => "descendant-or-self", Axis::Following => "following", Axis::FollowingSibling => "following-sibling", Axis::Namespace => "namespace", Axis::Parent => "parent", Axis::Preceding => "preceding", Axis::PrecedingSibling => "preceding-sibling", Axis::SelfAxis => "self" }
    }
    pub fn reverse(self) -> bool { matches!(self, Axis::Ancestor | Axis::AncestorOrSelf | Axis::Preceding | Axis::PrecedingSibling) }
}

#[derive(Clone, PartialEq, Debug)]
pub enum Test { Name(Option<String>, String), Any, NsAny(String), Text, Comment, PI, PITarget(String), Node }

#[derive(Clone, PartialEq, Debug)]
pub struct Step { pub axis: Axis, pub test: Test, pub preds: Vec<Expr>, pub dslash: bool }

#[derive(Clone, PartialEq, Debug)]
pub enum Start { Root, Context, Filter(Box<Expr>, Vec<Expr>) }

#[derive(Clone, Copy, PartialEq, Debug)]
pub enum Op { Or, And, Eq, Ne, Lt, Le, Gt, Ge, Add, Sub, Mul, Div, Mod, Union }
impl Op {
    pub fn prec(self) -> u8 { match self { Op::Or => 1, Op::And => 2, Op::Eq | Op::Ne => 3, Op::Lt | Op::Le | Op::Gt | Op::Ge => 4, Op::Add | Op::Sub => 5, Op::Mul | Op::Div | Op::Mod => 6, Op::Union => 8 } }
    pub fn sym(self) -> &'static str { match self { Op::Or => "or", Op::And => "and", Op::Eq => "=", Op::Ne => "!=", Op::Lt => "<", Op::Le => "<=", Op::Gt => ">", Op::Ge => ">=", Op::Add => "+", Op::Sub => "-", Op::Mul => "*", Op::Div => "div", Op::Mod => "mod", Op::Union => "|" } }
}
pub const OPS: &[Op] = &[Op::Or, Op::And, Op::Eq, Op::Ne, Op::Lt, Op::Le, Op::Gt, Op::Ge, Op::Add, Op::Sub, Op::Mul, Op::Div, Op::Mod, Op::Union];

#[derive(Clone, PartialEq, Debug)]
pub enum Expr {
    Bin(Op, Box<Expr>, Box<Expr>),
    Neg(Box<Expr>),
    Num(String),
    Lit(String),
    Func(String, Vec<Expr>),
    Path(Start, Vec<Step>),
    Var(String),
}

// ------------------------------------------------------------------------------------------------
// rendering

#[derive(Clone, Copy)]
pub struct Spelling {
    /// use abbreviated syntax where it exists
    pub abbrev: bool,
    /// optional white space between tokens
    pub spaces: bool,
    /// parenthesise every binary sub-expression
    pub full_parens: bool,
    /// wrap some primaries in redundant parentheses
    pub redundant: bool,
    /// [n] instead of [position()=n] and vice versa is a model transformation, not a spelling
    pub outer_ws: bool,
}
impl Spelling {
    pub fn canonical() -> Spelling { Spelling { abbrev: false, spaces: false, full_parens: false, redundant: false, outer_ws: false } }
    pub fn abbreviated() -> Spelling { Spelling { abbrev: true, spaces: false, full_parens: false, redundant: false, outer_ws: false } }
}

struct R<'a> { sp: Spelling, rng: Option<&'a mut Rng>, out: String, top_is_root: bool }
impl<'a> R<'a> {
    fn ws(&mut self) { if self.sp.spaces { if let Some(r) = self.rng.as_mut() { match r.below(4) { 0 => self.out.push(' '), 1 => self.out.push_str("  "), 2 => self.out.push('\n'), _ => {} } } } }
    fn coin(&mut self) -> bool { match self.rng.as_mut() { Some(r) => r.chance(1, 2), None => true } }
    fn tok(&mut self, s: &str) { self.out.push_str(s); }
    /// a token that is lexed as a name or number needs separation from a preceding name character
    fn name_tok(&mut self, s: &str) {
        if let Some(c) = self.out.chars().last() { if c.is_alphanumeric() || c == '_' || c == '-' || c == '.' || c == ':' || (c as u32) > 127 { self.out.push(' '); } }
        self.out.push_str(s);
    }
}

fn prec_of(e: &Expr) -> u8 { match e { Expr::Bin(op, _, _) => op.prec(), Expr::Neg(_) => 7, _ => 9 } }

fn r_expr(r: &mut R, e: &Expr, min_prec: u8) {
    let p = prec_of(e);
    let need = p < min_prec || (r.sp.full_parens && p < 9);
    let redundant = !need && r.sp.redundant && p == 9 && !matches!(e, Expr::Path(Start::Root, _) | Expr::Path(Start::Context, _)) && r.coin() && r.coin();
    if need || redundant { r.tok("("); r.ws(); }
    match e {
        Expr::Bin(op, a, b) => {
            // all binary operators are left-associative: the right operand needs strictly higher precedence
            r_expr(r, a, p);
            r.ws();
            match op {
                Op::Or | Op::And | Op::Div | Op::Mod => { r.out.push(' '); r.tok(op.sym()); r.out.push(' '); }
                Op::Sub => { r.out.push(' '); r.tok("-"); }
                Op::Mul => { r.out.push(' '); r.tok("*"); }
                _ => r.tok(op.sym()),
            }
            r.ws();
            r_expr(r, b, p + 1);
        }
        Expr::Neg(a) => { r.tok("-"); r.ws(); r_expr(r, a, 7); }
        Expr::Num(n) => r.name_tok(n),
        Expr::Lit(s) => { if s.contains('"') { r.tok(&format!("'{}'", s)); } else if s.contains('\'') || r.coin() { r.tok(&format!("\"{}\"", s)); } else { r.tok(&format!("'{}'", s)); } }
        Expr::Var(v) => r.tok(&format!("${}", v)),
        Expr::Func(name, args) => {
            r.name_tok(name); r.ws(); r.tok("("); r.ws();
            for (i, a) in args.iter().enumerate() { if i > 0 { r.ws(); r.tok(","); r.ws(); } r_expr(r, a, 0); }
            r.ws(); r.tok(")");
        }
        Expr::Path(start, steps) => r_path(r, start, steps),
    }
    if need || redundant { r.ws(); r.tok(")"); }
}

fn r_preds(r: &mut R, preds: &[Expr]) { for p in preds { r.ws(); r.tok("["); r.ws(); r_expr(r, p, 0); r.ws(); r.tok("]"); } }

fn r_test(r: &mut R, t: &Test) {
    match t {
        Test::Name(p, l) => { let s = qn(p, l); r.name_tok(&s); }
        Test::Any => r.tok("*"),
        Test::NsAny(p) => { r.name_tok(p); r.tok(":*"); }
        Test::Text => { r.name_tok("text"); r.ws(); r.tok("("); r.ws(); r.tok(")"); }
        Test::Comment => { r.name_tok("comment"); r.ws(); r.tok("("); r.ws(); r.tok(")"); }
        Test::PI => { r.name_tok("processing-instruction"); r.ws(); r.tok("("); r.ws(); r.tok(")"); }
        Test::PITarget(s) => { r.name_tok("processing-instruction"); r.ws(); r.tok("("); r.ws(); r.tok(&format!("'{}'", s)); r.ws(); r.tok(")"); }
        Test::Node => { r.name_tok("node"); r.ws(); r.tok("("); r.ws(); r.tok(")"); }
    }
}

fn r_step(r: &mut R, s: &Step) {
    let plain = s.preds.is_empty();
    if r.sp.abbrev && plain && s.axis == Axis::SelfAxis && s.test == Test::Node { r.tok("."); return; }
    if r.sp.abbrev && plain && s.axis == Axis::Parent && s.test == Test::Node { r.tok(".."); return; }
    if r.sp.abbrev && s.axis == Axis::Child { r_test(r, &s.test); }
    else if r.sp.abbrev && s.axis == Axis::Attribute { r.tok("@"); r_test(r, &s.test); }
    else { r.name_tok(s.axis.name()); r.ws(); r.tok("::"); r.ws(); r_test(r, &s.test); }
    r_preds(r, &s.preds);
}

fn r_path(r: &mut R, start: &Start, steps: &[Step]) {
    let mut first = true;
    match start {
        // a bare "/" followed by an operator name or "*" is lexed as the start of a path ("/ or x" is a
        // syntax error by XPath 1.0 section 3.7), so it is parenthesised unless it is the whole expression
        Start::Root => { if steps.is_empty() { if r.out.is_empty() && r.top_is_root { r.tok("/"); } else { r.tok("(/)"); } return; } }
        Start::Context => {}
        Start::Filter(e, preds) => {
            // a filter expression's primary must be parenthesised unless it is a primary already
            let prim = matches!(**e, Expr::Func(..) | Expr::Lit(_) | Expr::Num(_) | Expr::Var(_));
            if prim && !r.sp.full_parens { r_expr(r, e, 9); } else { r.tok("("); r.ws(); r_expr(r, e, 0); r.ws(); r.tok(")"); }
            r_preds(r, preds);
            first = false;
        }
    }
    for (i, s) in steps.iter().enumerate() {
        let lead_sep = !first || matches!(start, Start::Root);
        if s.dslash {
            if r.sp.abbrev { if lead_sep || i > 0 { r.ws(); r.tok("//"); r.ws(); } else { r.tok("descendant-or-self::node()"); r.tok("/"); } }
            else { if lead_sep || i > 0 { r.ws(); r.tok("/"); r.ws(); } r.tok("descendant-or-self::node()"); r.ws(); r.tok("/"); r.ws(); }
        } else if lead_sep || i > 0 { r.ws(); r.tok("/"); r.ws(); }
        r_step(r, s);
        first = false;
    }
}

pub fn render(e: &Expr, sp: Spelling, rng: Option<&mut Rng>) -> String {
    let mut r = R { sp, rng, out: String::new(), top_is_root: matches!(e, Expr::Path(Start::Root, st) if st.is_empty()) };
    r_expr(&mut r, e, 0);
    let mut s = r.out;
    if sp.outer_ws { s = format!(" {}\n", s); }
    s
}

// ------------------------------------------------------------------------------------------------
// reference evaluator

#[derive(Clone, Debug, PartialEq)]
pub enum RV { Nodes(Vec<usize>), Bool(bool), Num(f64), Str(String) }

#[derive(Clone, Debug, PartialEq)]
pub enum RErr { Type(String), UnknownFunction(String), Arity(String), UnboundPrefix(String), Unsupported(String) }

/// Bug-compatible switches: each reproduces one *recorded* defect of xml-rs exactly (see
/// known_findings.json). With all switches off the evaluator is the XPath 1.0 reference.
#[derive(Clone, Copy, Default, PartialEq, Debug)]
pub struct Dev {
    /// number -> string prints negative zero as "-0"
    pub neg_zero: bool,
    /// attribute and namespace nodes have no parent (DOM view): parent/ancestor/sibling/following/preceding
    /// from them select nothing; their child/descendant axes expose DOM children (not emulated: `tainted`)
    pub attr_dom_view: bool,
}
pub const DEV_NAMES: &[&str] = &["neg-zero-string", "attr-dom-view"];
impl Dev {
    pub fn from_mask(m: u32) -> Dev { Dev { neg_zero: m & 1 != 0, attr_dom_view: m & 2 != 0 } }
    pub fn names(m: u32) -> String { DEV_NAMES.iter().enumerate().filter(|(i, _)| m & (1 << i) != 0).map(|(_, n)| *n).collect::<Vec<_>>().join("+") }
    pub const COUNT: u32 = 2;
}

pub struct Env<'a> { pub tree: &'a RTree, pub ns: Vec<(String, String)>, pub default_ns: Option<String>, pub dev: Dev, pub tainted: std::cell::Cell<bool> }

#[derive(Clone, Copy)]
pub struct Cx { pub node: usize, pub pos: usize, pub size: usize }

pub fn is_xml_ws(c: char) -> bool { matches!(c, ' ' | '\t' | '\n' | '\r') }

/// XPath 1.0 section 4.4: string -> number
pub fn str_to_num(s: &str) -> f64 {
    let t = s.trim_matches(is_xml_ws);
    let b = t.strip_prefix('-').unwrap_or(t);
    let mut digits = 0; let mut dots = 0; let mut ok = !b.is_empty();
    for c in b.chars() { if c.is_ascii_digit() { digits += 1; } else if c == '.' { dots += 1; } else { ok = false; } }
    if !ok || digits == 0 || dots > 1 { return f64::NAN; }
    // lexical form: Digits ('.' Digits?)? | '.' Digits
    let v: f64 = if b.starts_with('.') { format!("0{}", b).parse().unwrap_or(f64::NAN) } else if b.ends_with('.') { format!("{}0", b).parse().unwrap_or(f64::NAN) } else { b.parse().unwrap_or(f64::NAN) };
    if t.starts_with('-') { -v } else { v }
}

/// XPath 1.0 section 4.2: number -> string
pub fn num_to_str(n: f64) -> String {
    if n.is_nan() { return "NaN".into(); }
    if n == 0.0 { return "0".into(); }
    if n.is_infinite() { return if n > 0.0 { "Infinity".into() } else { "-Infinity".into() }; }
    // Rust's Display prints the shortest decimal that round-trips, without exponent
    format!("{}", n)
}

pub fn xpath_round(n: f64) -> f64 {
    if n.is_nan() || n.is_infinite() { return n; }
    if n.fract() == 0.0 { return n; }
    if (-0.5..0.0).contains(&n) { return -0.0; }
    (n + 0.5).floor()
}

pub fn xpath_substring(s: &str, start: f64, len: Option<f64>) -> String {
    // characters at positions p (1-based) with p >= round(start) and p < round(start) + round(len)
    let rs = xpath_round(start);
    let end = match len { Some(l) => rs + xpath_round(l), None => f64::INFINITY };
    let mut o = String::new();
    for (i, c) in s.chars().enumerate() { let p = (i + 1) as f64; if p >= rs && p < end { o.push(c); } }
    o
}

impl<'a> Env<'a> {
    fn to_str(&self, v: &RV) -> String {
        match v { RV::Str(s) => s.clone(), RV::Bool(b) => if *b { "true".into() } else { "false".into() }, RV::Num(n) => if self.dev.neg_zero && *n == 0.0 && n.is_sign_negative() { "-0".into() } else { num_to_str(*n) }, RV::Nodes(ns) => ns.first().map(|n| self.tree.string_value(*n)).unwrap_or_default() }
    }
    fn to_num(&self, v: &RV) -> f64 { match v { RV::Num(n) => *n, RV::Bool(b) => if *b { 1.0 } else { 0.0 }, RV::Str(s) => str_to_num(s), RV::Nodes(_) => str_to_num(&self.to_str(v)) } }
    fn to_bool(&self, v: &RV) -> bool { match v { RV::Bool(b) => *b, RV::Num(n) => !(*n == 0.0 || n.is_nan()), RV::Str(s) => !s.is_empty(), RV::Nodes(ns) => !ns.is_empty() } }

    fn resolve(&self, p: &str) -> Result<String, RErr> { self.ns.iter().find(|x| x.0 == p).map(|x| x.1.clone()).ok_or_else(|| RErr::UnboundPrefix(p.to_string())) }

    fn axis(&self, axis: Axis, n: usize) -> Vec<usize> {
        let t = self.tree;
        let nd = &t.nodes[n];
        if self.dev.attr_dom_view && matches!(nd.kind, RKind::Attr | RKind::Ns) {
            match axis {
                Axis::SelfAxis | Axis::AncestorOrSelf => return vec![n],
                Axis::Child | Axis::Descendant => { if nd.kind == RKind::Attr { self.tainted.set(true); } return vec![]; }
                Axis::DescendantOrSelf => { if nd.kind == RKind::Attr { self.tainted.set(true); } return vec![n]; }
                _ => return vec![],
            }
        }
        match axis {
            Axis::Child => nd.children.clone(),
            Axis::Attribute => nd.attrs.clone(),
            Axis::Namespace => nd.nss.clone(),
            Axis::Parent => nd.parent.into_iter().collect(),
            Axis::SelfAxis => vec![n],
            Axis::Descendant => { let mut v = vec![]; t.descendants(n, &mut v); v }
            Axis::DescendantOrSelf => { let mut v = vec![n]; t.descendants(n, &mut v); v }
            Axis::Ancestor => { let mut v = vec![]; let mut p = nd.parent; while let Some(x) = p { v.push(x); p = t.nodes[x].parent; } v }
            Axis::AncestorOrSelf => { let mut v = vec![n]; let mut p = nd.parent; while let Some(x) = p { v.push(x); p = t.nodes[x].parent; } v }
            Axis::FollowingSibling => { if matches!(nd.kind, RKind::Attr | RKind::Ns) { return vec![]; } match nd.parent { Some(p) => { let ch = &t.nodes[p].children; let i = ch.iter().position(|&c| c == n).unwrap(); ch[i + 1..].to_vec() } None => vec![] } }
            Axis::PrecedingSibling => { if matches!(nd.kind, RKind::Attr | RKind::Ns) { return vec![]; } match nd.parent { Some(p) => { let ch = &t.nodes[p].children; let i = ch.iter().position(|&c| c == n).unwrap(); let mut v = ch[..i].to_vec(); v.reverse(); v } None => vec![] } }
            Axis::Following => {
                // all nodes after n in document order, excluding descendants, attributes and namespace nodes
                let mut v = vec![];
                for m in 0..t.nodes.len() { if m > n && !matches!(t.nodes[m].kind, RKind::Attr | RKind::Ns) && !t.is_ancestor(n, m) { v.push(m); } }
                v
            }
            Axis::Preceding => {
                let mut v = vec![];
                for m in (0..t.nodes.len()).rev() { if m < n && !matches!(t.nodes[m].kind, RKind::Attr | RKind::Ns) && !t.is_ancestor(m, n) { v.push(m); } }
                v
            }
        }
    }

    fn test(&self, axis: Axis, test: &Test, n: usize) -> Result<bool, RErr> {
        let nd = &self.tree.nodes[n];
        let principal = match axis { Axis::Attribute => RKind::Attr, Axis::Namespace => RKind::Ns, _ => RKind::Elem };
        Ok(match test {
            Test::Node => true,
            Test::Text => nd.kind == RKind::Text,
            Test::Comment => nd.kind == RKind::Comment,
            Test::PI => nd.kind == RKind::PI,
            Test::PITarget(t) => nd.kind == RKind::PI && &nd.local == t,
            Test::Any => nd.kind == principal,
            Test::NsAny(p) => { let u = self.resolve(p)?; nd.kind == principal && nd.uri.as_deref() == Some(u.as_str()) }
            Test::Name(p, l) => {
                let u = match p { Some(p) => Some(self.resolve(p)?), None => if principal == RKind::Elem { self.default_ns.clone() } else { None } };
                nd.kind == principal && &nd.local == l && nd.uri == u
            }
        })
    }

    fn preds(&self, nodes: Vec<usize>, preds: &[Expr]) -> Result<Vec<usize>, RErr> {
        // `nodes` is in axis order (proximity positions)
        let mut cur = nodes;
        for p in preds {
            let size = cur.len();
            let mut next = vec![];
            for (i, &n) in cur.iter().enumerate() {
                let v = self.eval(p, Cx { node: n, pos: i + 1, size })?;
                let keep = match v { RV::Num(x) => x == (i + 1) as f64, other => self.to_bool(&other) };
                if keep { next.push(n); }
            }
            cur = next;
        }
        Ok(cur)
    }

    fn step(&self, s: &Step, input: &[usize]) -> Result<Vec<usize>, RErr> {
        let mut out: Vec<usize> = vec![];
        let mut ctxs: Vec<usize> = input.to_vec();
        if s.dslash { let mut v = vec![]; for &n in input { if self.dev.attr_dom_view && self.tree.nodes[n].kind == RKind::Attr { self.tainted.set(true); } v.push(n); self.tree.descendants(n, &mut v); } v.sort(); v.dedup(); ctxs = v; }
        for &n in &ctxs {
            let mut cand = vec![];
            for m in self.axis(s.axis, n) { if self.test(s.axis, &s.test, m)? { cand.push(m); } }
            let kept = self.preds(cand, &s.preds)?;
            out.extend(kept);
        }
        out.sort(); out.dedup();
        Ok(out)
    }

    pub fn eval(&self, e: &Expr, cx: Cx) -> Result<RV, RErr> {
        match e {
            Expr::Num(n) => Ok(RV::Num(n.parse::<f64>().map_err(|_| RErr::Type("number".into()))?)),
            Expr::Lit(s) => Ok(RV::Str(s.clone())),
            Expr::Var(v) => Err(RErr::Unsupported(format!("${}", v))),
            Expr::Neg(a) => { let v = self.eval(a, cx)?; Ok(RV::Num(-self.to_num(&v))) }
            Expr::Path(start, steps) => {
                let mut cur: Vec<usize> = match start {
                    Start::Root => vec![0],
                    Start::Context => vec![cx.node],
                    Start::Filter(fe, preds) => {
                        let v = self.eval(fe, cx)?;
                        if preds.is_empty() && steps.is_empty() { return Ok(v); }
                        match v { RV::Nodes(ns) => self.preds(ns, preds)?, _ => return Err(RErr::Type("filter/path on a non-node-set".into())) }
                    }
                };
                for s in steps { cur = self.step(s, &cur)?; }
                Ok(RV::Nodes(cur))
            }
            Expr::Bin(op, a, b) => {
                match op {
                    Op::Or => { let x = self.eval(a, cx)?; if self.to_bool(&x) { return Ok(RV::Bool(true)); } let y = self.eval(b, cx)?; Ok(RV::Bool(self.to_bool(&y))) }
                    Op::And => { let x = self.eval(a, cx)?; if !self.to_bool(&x) { return Ok(RV::Bool(false)); } let y = self.eval(b, cx)?; Ok(RV::Bool(self.to_bool(&y))) }
                    Op::Union => {
                        let x = self.eval(a, cx)?; let y = self.eval(b, cx)?;
                        match (x, y) { (RV::Nodes(mut p), RV::Nodes(q)) => { p.extend(q); p.sort(); p.dedup(); Ok(RV::Nodes(p)) } _ => Err(RErr::Type("union of non-node-sets".into())) }
                    }
                    Op::Add | Op::Sub | Op::Mul | Op::Div | Op::Mod => {
                        let x = self.eval(a, cx)?; let y = self.eval(b, cx)?;
                        let (x, y) = (self.to_num(&x), self.to_num(&y));
                        Ok(RV::Num(match op { Op::Add => x + y, Op::Sub => x - y, Op::Mul => x * y, Op::Div => x / y, _ => x % y }))
                    }
                    _ => { let x = self.eval(a, cx)?; let y = self.eval(b, cx)?; Ok(RV::Bool(self.compare(*op, &x, &y))) }
                }
            }
            Expr::Func(name, args) => self.func(name, args, cx),
        }
    }

    fn cmp_num(op: Op, a: f64, b: f64) -> bool { match op { Op::Eq => a == b, Op::Ne => a != b, Op::Lt => a < b, Op::Le => a <= b, Op::Gt => a > b, _ => a >= b } }

    /// XPath 1.0 section 3.4
    fn compare(&self, op: Op, x: &RV, y: &RV) -> bool {
        let eqop = matches!(op, Op::Eq | Op::Ne);
        match (x, y) {
            (RV::Nodes(p), RV::Nodes(q)) => {
                for &a in p { for &b in q {
                    let (sa, sb) = (self.tree.string_value(a), self.tree.string_value(b));
                    let r = if eqop { if op == Op::Eq { sa == sb } else { sa != sb } } else { Self::cmp_num(op, str_to_num(&sa), str_to_num(&sb)) };
                    if r { return true; }
                } }
                false
            }
            (RV::Nodes(p), other) | (other, RV::Nodes(p)) => {
                let nodes_left = matches!(x, RV::Nodes(_));
                match other {
                    RV::Bool(b) => { let nb = !p.is_empty(); if eqop { if op == Op::Eq { nb == *b } else { nb != *b } } else { let (l, r) = if nodes_left { (nb as u8 as f64, *b as u8 as f64) } else { (*b as u8 as f64, nb as u8 as f64) }; Self::cmp_num(op, l, r) } }
                    RV::Num(n) => p.iter().any(|&a| { let v = str_to_num(&self.tree.string_value(a)); if nodes_left { Self::cmp_num(op, v, *n) } else { Self::cmp_num(op, *n, v) } }),
                    RV::Str(s) => p.iter().any(|&a| { let sv = self.tree.string_value(a); if eqop { if op == Op::Eq { &sv == s } else { &sv != s } } else { let (l, r) = (str_to_num(&sv), str_to_num(s)); if nodes_left { Self::cmp_num(op, l, r) } else { Self::cmp_num(op, r, l) } } }),
                    RV::Nodes(_) => unreachable!(),
                }
            }
            _ => {
                if eqop {
                    let r = if matches!(x, RV::Bool(_)) || matches!(y, RV::Bool(_)) { self.to_bool(x) == self.to_bool(y) }
                        else if matches!(x, RV::Num(_)) || matches!(y, RV::Num(_)) { self.to_num(x) == self.to_num(y) }
                        else { self.to_str(x) == self.to_str(y) };
                    if op == Op::Eq { r } else {
                        // != is not the negation for NaN
                        if matches!(x, RV::Bool(_)) || matches!(y, RV::Bool(_)) { !r } else if matches!(x, RV::Num(_)) || matches!(y, RV::Num(_)) { self.to_num(x) != self.to_num(y) } else { !r }
                    }
                } else { Self::cmp_num(op, self.to_num(x), self.to_num(y)) }
            }
        }
    }

    fn func(&self, name: &str, args: &[Expr], cx: Cx) -> Result<RV, RErr> {
        let arity = |lo: usize, hi: usize| -> Result<(), RErr> { if args.len() < lo || args.len() > hi { Err(RErr::Arity(name.to_string())) } else { Ok(()) } };
        let t = self.tree;
        // evaluate arguments eagerly, left to right (errors propagate)
        let ev = |i: usize| -> Result<RV, RErr> { self.eval(&args[i], cx) };
        let nodeset_arg_or_ctx = |me: &Env| -> Result<Option<usize>, RErr> {
            if args.is_empty() { return Ok(Some(cx.node)); }
            match me.eval(&args[0], cx)? { RV::Nodes(ns) => Ok(ns.first().cloned()), _ => Err(RErr::Type(format!("{} expects a node-set", name))) }
        };
        match name {
            "last" => { arity(0, 0)?; Ok(RV::Num(cx.size as f64)) }
            "position" => { arity(0, 0)?; Ok(RV::Num(cx.pos as f64)) }
            "count" => { arity(1, 1)?; match ev(0)? { RV::Nodes(ns) => Ok(RV::Num(ns.len() as f64)), _ => Err(RErr::Type("count".into())) } }
            "id" => Err(RErr::Unsupported("id".into())),
            "local-name" => { arity(0, 1)?; Ok(RV::Str(match nodeset_arg_or_ctx(self)? { Some(n) => match t.nodes[n].kind { RKind::Elem | RKind::Attr | RKind::PI | RKind::Ns => t.nodes[n].local.clone(), _ => String::new() }, None => String::new() })) }
            "namespace-uri" => { arity(0, 1)?; Ok(RV::Str(match nodeset_arg_or_ctx(self)? { Some(n) => match t.nodes[n].kind { RKind::Elem | RKind::Attr => t.nodes[n].uri.clone().unwrap_or_default(), _ => String::new() }, None => String::new() })) }
            "name" => { arity(0, 1)?; Ok(RV::Str(match nodeset_arg_or_ctx(self)? { Some(n) => match t.nodes[n].kind { RKind::Elem | RKind::Attr => qn(&t.nodes[n].prefix, &t.nodes[n].local), RKind::PI | RKind::Ns => t.nodes[n].local.clone(), _ => String::new() }, None => String::new() })) }
            "string" => { arity(0, 1)?; if args.is_empty() { Ok(RV::Str(t.string_value(cx.node))) } else { let v = ev(0)?; Ok(RV::Str(self.to_str(&v))) } }
            "concat" => { if args.len() < 2 { return Err(RErr::Arity(name.into())); } let mut s = String::new(); for i in 0..args.len() { let v = ev(i)?; s.push_str(&self.to_str(&v)); } Ok(RV::Str(s)) }
            "starts-with" => { arity(2, 2)?; let (a, b) = (ev(0)?, ev(1)?); Ok(RV::Bool(self.to_str(&a).starts_with(&self.to_str(&b)))) }
            "contains" => { arity(2, 2)?; let (a, b) = (ev(0)?, ev(1)?); Ok(RV::Bool(self.to_str(&a).contains(&self.to_str(&b)))) }
            "substring-before" => { arity(2, 2)?; let (a, b) = (ev(0)?, ev(1)?); let (a, b) = (self.to_str(&a), self.to_str(&b)); Ok(RV::Str(a.find(&b).map(|i| a[..i].to_string()).unwrap_or_default())) }
            "substring-after" => { arity(2, 2)?; let (a, b) = (ev(0)?, ev(1)?); let (a, b) = (self.to_str(&a), self.to_str(&b)); Ok(RV::Str(a.find(&b).map(|i| a[i + b.len()..].to_string()).unwrap_or_default())) }
            "substring" => { arity(2, 3)?; let s = ev(0)?; let st = ev(1)?; let ln = if args.len() == 3 { Some(self.to_num(&ev(2)?)) } else { None }; Ok(RV::Str(xpath_substring(&self.to_str(&s), self.to_num(&st), ln))) }
            "string-length" => { arity(0, 1)?; let s = if args.is_empty() { t.string_value(cx.node) } else { let v = ev(0)?; self.to_str(&v) }; Ok(RV::Num(s.chars().count() as f64)) }
            "normalize-space" => { arity(0, 1)?; let s = if args.is_empty() { t.string_value(cx.node) } else { let v = ev(0)?; self.to_str(&v) }; Ok(RV::Str(s.split(is_xml_ws).filter(|x| !x.is_empty()).collect::<Vec<_>>().join(" "))) }
            "translate" => { arity(3, 3)?; let (a, b, c) = (ev(0)?, ev(1)?, ev(2)?); let (a, b, c) = (self.to_str(&a), self.to_str(&b), self.to_str(&c)); let from: Vec<char> = b.chars().collect(); let to: Vec<char> = c.chars().collect(); let mut o = String::new(); for ch in a.chars() { match from.iter().position(|x| *x == ch) { Some(i) => { if let Some(r) = to.get(i) { o.push(*r); } } None => o.push(ch) } } Ok(RV::Str(o)) }
            "boolean" => { arity(1, 1)?; let v = ev(0)?; Ok(RV::Bool(self.to_bool(&v))) }
            "not" => { arity(1, 1)?; let v = ev(0)?; Ok(RV::Bool(!self.to_bool(&v))) }
            "true" => { arity(0, 0)?; Ok(RV::Bool(true)) }
            "false" => { arity(0, 0)?; Ok(RV::Bool(false)) }
            "lang" => {
                arity(1, 1)?; let want = self.to_str(&ev(0)?).to_ascii_lowercase();
                let mut n = Some(cx.node);
                if self.dev.attr_dom_view && matches!(t.nodes[cx.node].kind, RKind::Attr | RKind::Ns) { n = None; }
                while let Some(x) = n {
                    if let Some(&a) = t.nodes[x].attrs.iter().find(|&&a| t.nodes[a].local == "lang" && t.nodes[a].uri.as_deref() == Some(model::XML_NS)) {
                        let have = t.nodes[a].value.to_ascii_lowercase();
                        return Ok(RV::Bool(have == want || (have.starts_with(&want) && have[want.len()..].starts_with('-'))));
                    }
                    n = t.nodes[x].parent;
                }
                Ok(RV::Bool(false))
            }
            "number" => { arity(0, 1)?; if args.is_empty() { Ok(RV::Num(str_to_num(&t.string_value(cx.node)))) } else { let v = ev(0)?; Ok(RV::Num(self.to_num(&v))) } }
            "sum" => { arity(1, 1)?; match ev(0)? { RV::Nodes(ns) => Ok(RV::Num(ns.iter().map(|&n| str_to_num(&t.string_value(n))).fold(0.0, |a, b| a + b))), _ => Err(RErr::Type("sum".into())) } }
            "floor" => { arity(1, 1)?; let v = ev(0)?; Ok(RV::Num(self.to_num(&v).floor())) }
            "ceiling" => { arity(1, 1)?; let v = ev(0)?; Ok(RV::Num(self.to_num(&v).ceil())) }
            "round" => { arity(1, 1)?; let v = ev(0)?; Ok(RV::Num(xpath_round(self.to_num(&v)))) }
            _ => Err(RErr::UnknownFunction(name.to_string())),
        }
    }
}

// ------------------------------------------------------------------------------------------------
// features (for coverage histograms and signatures)

pub fn features(e: &Expr, out: &mut Vec<String>) {
    match e {
        Expr::Bin(op, a, b) => { out.push(format!("op:{}", op.sym())); features(a, out); features(b, out); }
        Expr::Neg(a) => { out.push("op:neg".into()); features(a, out); }
        Expr::Num(_) => out.push("num".into()),
        Expr::Lit(_) => out.push("lit".into()),
        Expr::Var(_) => out.push("var".into()),
        Expr::Func(n, args) => { out.push(format!("fn:{}", n)); for a in args { features(a, out); } }
        Expr::Path(start, steps) => {
            match start { Start::Root => out.push("abs".into()), Start::Context => {} Start::Filter(fe, preds) => { out.push("filter".into()); features(fe, out); for p in preds { out.push("filter-pred".into()); pred_features(p, out); } } }
            for s in steps {
                out.push(format!("axis:{}", s.axis.name()));
                if s.dslash { out.push("dslash".into()); }
                out.push(match &s.test { Test::Name(Some(_), _) => "test:qname", Test::Name(None, _) => "test:name", Test::Any => "test:*", Test::NsAny(_) => "test:p:*", Test::Text => "test:text()", Test::Comment => "test:comment()", Test::PI => "test:pi()", Test::PITarget(_) => "test:pi(lit)", Test::Node => "test:node()" }.to_string());
                for p in &s.preds { out.push(if s.axis.reverse() { "pred-on-reverse-axis" } else { "pred" }.to_string()); pred_features(p, out); }
            }
        }
    }
}
fn pred_features(p: &Expr, out: &mut Vec<String>) {
    if let Expr::Num(_) = p { out.push("pred-number".into()); }
    let mut inner = vec![]; features(p, &mut inner);
    if inner.iter().any(|f| f == "pred" || f == "pred-on-reverse-axis") { out.push("nested-pred".into()); }
    out.extend(inner);
}
pub fn feature_set(e: &Expr) -> Vec<String> { let mut v = vec![]; features(e, &mut v); v.sort(); v.dedup(); v }

// ------------------------------------------------------------------------------------------------
// generator

#[derive(Clone)]
pub struct XGen {
    pub names: Vec<String>,
    pub attr_names: Vec<String>,
    pub prefixes: Vec<String>,
    pub texts: Vec<String>,
    pub pi_targets: Vec<String>,
    /// axes the generator may use (known-finding exclusions shrink this list)
    pub axes: Vec<Axis>,
    pub funcs: Vec<&'static str>,
    pub allow_pi_literal: bool,
    pub max_depth: usize,
}

pub const FUNCS: &[(&str, usize, usize, char)] = &[
    // name, min args, max args, result kind (n number, s string, b bool, N node-set)
    ("last", 0, 0, 'n'), ("position", 0, 0, 'n'), ("count", 1, 1, 'n'), ("local-name", 0, 1, 's'), ("namespace-uri", 0, 1, 's'), ("name", 0, 1, 's'),
    ("string", 0, 1, 's'), ("concat", 2, 3, 's'), ("starts-with", 2, 2, 'b'), ("contains", 2, 2, 'b'), ("substring-before", 2, 2, 's'), ("substring-after", 2, 2, 's'),
    ("substring", 2, 3, 's'), ("string-length", 0, 1, 'n'), ("normalize-space", 0, 1, 's'), ("translate", 3, 3, 's'), ("boolean", 1, 1, 'b'), ("not", 1, 1, 'b'),
    ("true", 0, 0, 'b'), ("false", 0, 0, 'b'), ("lang", 1, 1, 'b'), ("number", 0, 1, 'n'), ("sum", 1, 1, 'n'), ("floor", 1, 1, 'n'), ("ceiling", 1, 1, 'n'), ("round", 1, 1, 'n'),
];

impl XGen {
    pub fn for_doc(doc: &Doc) -> XGen {
        let mut names = vec![]; let mut attrs = vec![]; let mut texts = vec![]; let mut pis = vec![]; let mut prefixes = vec![];
        fn walk(e: &model::Elem, names: &mut Vec<String>, attrs: &mut Vec<String>, texts: &mut Vec<String>, pis: &mut Vec<String>, prefixes: &mut Vec<String>) {
            if !names.contains(&e.local) { names.push(e.local.clone()); }
            for (p, _) in &e.nsdecls { if let Some(p) = p { if !prefixes.contains(p) { prefixes.push(p.clone()); } } }
            for a in &e.attrs { if !attrs.contains(&a.local) { attrs.push(a.local.clone()); } }
            for c in &e.children { match c { Node::Elem(x) => walk(x, names, attrs, texts, pis, prefixes), Node::Text(t) => { let t = t.trim().to_string(); if !t.is_empty() && !t.contains('\'') && !t.contains('"') && texts.len() < 6 { texts.push(t); } } Node::PI(t, _) => { if !pis.contains(t) { pis.push(t.clone()); } } _ => {} } }
        }
        walk(&doc.root, &mut names, &mut attrs, &mut texts, &mut pis, &mut prefixes);
        names.push("nomatch".into());
        if attrs.is_empty() { attrs.push("a".into()); }
        texts.push("a".into()); texts.push("".into()); texts.push(" 12 ".into()); texts.push("-3.5".into());
        if pis.is_empty() { pis.push("pi".into()); }
        XGen { names, attr_names: attrs, prefixes, texts, pi_targets: pis, axes: AXES.to_vec(), funcs: FUNCS.iter().map(|f| f.0).collect(), allow_pi_literal: false, max_depth: 3 }
    }

    fn name_test(&self, r: &mut Rng, axis: Axis) -> Test {
        let pool = if axis == Axis::Attribute { &self.attr_names } else { &self.names };
        match r.below(10) {
            0 | 1 | 2 => Test::Any,
            3 if !self.prefixes.is_empty() => Test::NsAny(r.pick(&self.prefixes).clone()),
            4 if !self.prefixes.is_empty() => Test::Name(Some(r.pick(&self.prefixes).clone()), r.pick(pool).clone()),
            _ => Test::Name(None, r.pick(pool).clone()),
        }
    }

    pub fn step(&self, r: &mut Rng, depth: usize, prev_axis: Option<Axis>) -> Step {
        // after an attribute / namespace step only self is meaningful in this DOM (an attribute has no parent)
        let axis = if matches!(prev_axis, Some(Axis::Attribute) | Some(Axis::Namespace)) { Axis::SelfAxis } else {
            let w: Vec<u32> = self.axes.iter().map(|a| match a { Axis::Child => 8, Axis::Attribute => 3, Axis::Descendant | Axis::DescendantOrSelf => 3, Axis::Namespace => 1, _ => 2 }).collect();
            self.axes[r.weighted(&w)]
        };
        let test = if matches!(axis, Axis::Attribute | Axis::Namespace) { if r.chance(1, 4) { Test::Node } else { self.name_test(r, axis) } } else {
            match r.below(12) { 0 => Test::Text, 1 => Test::Comment, 2 => Test::PI, 3 | 4 => Test::Node, 5 if self.allow_pi_literal => Test::PITarget(r.pick(&self.pi_targets).clone()), _ => self.name_test(r, axis) }
        };
        let mut preds = vec![];
        if depth < self.max_depth {
            let np = r.weighted(&[6, 3, 1]);
            // the relative order of attributes / namespace nodes of one element is implementation dependent:
            // no position-sensitive predicates directly on those axes
            let positional_ok = !matches!(axis, Axis::Attribute | Axis::Namespace);
            for _ in 0..np { preds.push(self.pred(r, depth + 1, positional_ok)); }
        }
        Step { axis, test, preds, dslash: r.chance(1, 8) && !matches!(prev_axis, Some(Axis::Attribute) | Some(Axis::Namespace)) }
    }

    pub fn pred(&self, r: &mut Rng, depth: usize, positional_ok: bool) -> Expr {
        // language tests on whatever the step selected (nearest xml:lang wins; nested and shadowing declarations are generated)
        if self.funcs.contains(&"lang") && r.chance(1, 14) { return Expr::Func("lang".into(), vec![Expr::Lit(r.pick_s(&["en", "EN", "de", "fr", "e", "", "fr-e", "\u{65e5}", "\u{e9}", "enx", "f"]).to_string())]); }
        match r.below(10) {
            0 | 1 if positional_ok => Expr::Num(r.pick_s(&["1", "2", "3", "1.5", "0"]).to_string()),
            2 if positional_ok => Expr::Bin(*r.pick(&[Op::Eq, Op::Lt, Op::Ge, Op::Ne]), Box::new(Expr::Func("position".into(), vec![])), Box::new(if r.chance(1, 2) { Expr::Func("last".into(), vec![]) } else { Expr::Num(r.pick_s(&["1", "2"]).to_string()) })),
            3 if positional_ok && r.chance(1, 2) => Expr::Func("last".into(), vec![]),
            3 => {
                // a number that differs from node to node: it is compared with the position of each candidate in turn,
                // so it can select several nodes (all of them, every other one, the ones with n preceding siblings ...)
                let f = |n: &str, a: Vec<Expr>| Expr::Func(n.into(), a);
                let pos = || Expr::Func("position".into(), vec![]);
                let one = || Expr::Num("1".into());
                let sibs = |t: Test| Expr::Path(Start::Context, vec![Step { axis: Axis::PrecedingSibling, test: t, preds: vec![], dslash: false }]);
                match r.below(9) {
                    0 => pos(),
                    1 => Expr::Bin(Op::Mul, Box::new(Expr::Bin(Op::Mod, Box::new(pos()), Box::new(Expr::Num("2".into())))), Box::new(pos())),
                    2 => Expr::Bin(Op::Add, Box::new(f("count", vec![sibs(Test::Node)])), Box::new(one())),
                    3 => Expr::Bin(Op::Add, Box::new(f("count", vec![sibs(Test::Any)])), Box::new(one())),
                    4 => Expr::Bin(Op::Sub, Box::new(Expr::Bin(Op::Add, Box::new(f("last", vec![])), Box::new(one()))), Box::new(pos())),
                    5 => f("string-length", vec![]),
                    6 => f("count", vec![Expr::Path(Start::Context, vec![Step { axis: Axis::Child, test: Test::Node, preds: vec![], dslash: false }])]),
                    7 => f("floor", vec![Expr::Bin(Op::Div, Box::new(Expr::Bin(Op::Add, Box::new(pos()), Box::new(one()))), Box::new(Expr::Num("2".into())))]),
                    _ => self.number(r, depth + 1),
                }
            }
            4 | 5 => self.nodeset(r, depth, false),
            _ => self.boolean(r, depth),
        }
    }

    /// a node-set valued expression
    pub fn nodeset(&self, r: &mut Rng, depth: usize, allow_abs: bool) -> Expr {
        let k = r.below(12);
        if depth < self.max_depth && k == 0 { return Expr::Bin(Op::Union, Box::new(self.nodeset(r, depth + 1, allow_abs)), Box::new(self.nodeset(r, depth + 1, allow_abs))); }
        if depth < self.max_depth && k == 1 {
            // filter expression: (nodeset)[pred] possibly followed by steps
            let inner = self.nodeset(r, depth + 1, allow_abs);
            let np = r.range(0, 2);
            let preds: Vec<Expr> = (0..np).map(|_| self.pred(r, depth + 1, true)).collect();
            let ns = r.range(0, 2);
            let mut steps = vec![]; let mut prev = None;
            for _ in 0..ns { let s = self.step(r, depth + 1, prev); prev = Some(s.axis); steps.push(s); }
            return Expr::Path(Start::Filter(Box::new(inner), preds), steps);
        }
        let start = if allow_abs && r.chance(2, 3) || r.chance(1, 6) { Start::Root } else { Start::Context };
        let n = r.weighted(&[0, 5, 5, 3, 1]);
        let mut steps = vec![]; let mut prev = None;
        for _ in 0..n { let s = self.step(r, depth, prev); prev = Some(s.axis); steps.push(s); }
        if start == Start::Root && r.chance(1, 15) { steps.clear(); }
        Expr::Path(start, steps)
    }

    pub fn string(&self, r: &mut Rng, depth: usize) -> Expr {
        if depth >= self.max_depth { return Expr::Lit(r.pick(&self.texts).clone()); }
        match r.below(8) {
            0 | 1 => Expr::Lit(r.pick(&self.texts).clone()),
            2 => self.nodeset(r, depth + 1, true),
            _ => self.func_of_kind(r, depth, 's'),
        }
    }
    pub fn number(&self, r: &mut Rng, depth: usize) -> Expr {
        if depth >= self.max_depth { return Expr::Num(r.pick_s(&["0", "1", "2", "3.5", "10", ".5", "1."]).to_string()); }
        match r.below(9) {
            0 | 1 => Expr::Num(r.pick_s(&["0", "1", "2", "3.5", "10", ".5", "1.", "007"]).to_string()),
            2 => Expr::Bin(*r.pick(&[Op::Add, Op::Sub, Op::Mul, Op::Div, Op::Mod]), Box::new(self.number(r, depth + 1)), Box::new(self.number(r, depth + 1))),
            3 => Expr::Neg(Box::new(self.number(r, depth + 1))),
            4 => self.nodeset(r, depth + 1, true),
            _ => self.func_of_kind(r, depth, 'n'),
        }
    }
    pub fn boolean(&self, r: &mut Rng, depth: usize) -> Expr {
        if depth >= self.max_depth { return Expr::Func(if r.chance(1, 2) { "true" } else { "false" }.into(), vec![]); }
        match r.below(10) {
            0 => Expr::Bin(if r.chance(1, 2) { Op::Or } else { Op::And }, Box::new(self.boolean(r, depth + 1)), Box::new(self.boolean(r, depth + 1))),
            1 | 2 | 3 => { let op = *r.pick(&[Op::Eq, Op::Ne, Op::Lt, Op::Le, Op::Gt, Op::Ge]); Expr::Bin(op, Box::new(self.any(r, depth + 1)), Box::new(self.any(r, depth + 1))) }
            4 | 5 => self.nodeset(r, depth + 1, false),
            _ => self.func_of_kind(r, depth, 'b'),
        }
    }
    pub fn any(&self, r: &mut Rng, depth: usize) -> Expr {
        match r.below(4) { 0 => self.nodeset(r, depth, true), 1 => self.string(r, depth), 2 => self.number(r, depth), _ => self.boolean(r, depth) }
    }
    fn func_of_kind(&self, r: &mut Rng, depth: usize, kind: char) -> Expr {
        let cands: Vec<&(&str, usize, usize, char)> = FUNCS.iter().filter(|f| f.3 == kind && self.funcs.contains(&f.0) && !(matches!(f.0, "last" | "position"))).collect();
        let f = *r.pick(&cands);
        let n = r.range(f.1, f.2);
        let mut args = vec![];
        for i in 0..n {
            let a = match f.0 {
                "count" | "sum" => self.nodeset(r, depth + 1, true),
                "local-name" | "namespace-uri" | "name" => self.nodeset(r, depth + 1, true),
                "substring" if i > 0 => self.number(r, depth + 1),
                "floor" | "ceiling" | "round" | "number" => if r.chance(1, 2) { self.number(r, depth + 1) } else { self.any(r, depth + 1) },
                "boolean" | "not" => self.any(r, depth + 1),
                "lang" => Expr::Lit(r.pick_s(&["en", "EN", "e", "en-US", "", "de", "fr", "fr-ca"]).to_string()),
                _ => if r.chance(2, 3) { self.string(r, depth + 1) } else { self.any(r, depth + 1) },
            };
            args.push(a);
        }
        Expr::Func(f.0.to_string(), args)
    }
    /// top-level expression of the supported language
    pub fn top(&self, r: &mut Rng) -> Expr {
        match r.below(10) { 0..=5 => self.nodeset(r, 0, true), 6 => self.string(r, 0), 7 => self.number(r, 0), _ => self.boolean(r, 0) }
    }
}

// ------------------------------------------------------------------------------------------------
// shrinking of expressions

fn sub_exprs(e: &Expr) -> Vec<Expr> {
    let mut v = vec![];
    match e {
        Expr::Bin(_, a, b) => { v.push((**a).clone()); v.push((**b).clone()); }
        Expr::Neg(a) => v.push((**a).clone()),
        Expr::Func(_, args) => v.extend(args.iter().cloned()),
        Expr::Path(start, steps) => {
            if let Start::Filter(fe, preds) = start { v.push((**fe).clone()); v.extend(preds.iter().cloned()); }
            for s in steps { v.extend(s.preds.iter().cloned()); }
        }
        _ => {}
    }
    v
}

/// single-step reductions of an expression
pub fn reductions(e: &Expr) -> Vec<Expr> {
    let mut out = sub_exprs(e);
    match e {
        Expr::Bin(op, a, b) => {
            for ra in reductions(a) { out.push(Expr::Bin(*op, Box::new(ra), b.clone())); }
            for rb in reductions(b) { out.push(Expr::Bin(*op, a.clone(), Box::new(rb))); }
        }
        Expr::Neg(a) => for ra in reductions(a) { out.push(Expr::Neg(Box::new(ra))); },
        Expr::Func(n, args) => { for (i, a) in args.iter().enumerate() { for ra in reductions(a) { let mut x = args.clone(); x[i] = ra; out.push(Expr::Func(n.clone(), x)); } } }
        Expr::Path(start, steps) => {
            // drop a step (first or last), drop a predicate, un-dslash, reduce inside predicates
            if steps.len() > 1 { out.push(Expr::Path(start.clone(), steps[1..].to_vec())); out.push(Expr::Path(start.clone(), steps[..steps.len() - 1].to_vec())); }
            if *start == Start::Root && !steps.is_empty() { out.push(Expr::Path(Start::Context, steps.clone())); }
            for (i, s) in steps.iter().enumerate() {
                if s.dslash { let mut x = steps.clone(); x[i].dslash = false; out.push(Expr::Path(start.clone(), x)); }
                for j in 0..s.preds.len() { let mut x = steps.clone(); x[i].preds.remove(j); out.push(Expr::Path(start.clone(), x)); }
                for (j, p) in s.preds.iter().enumerate() { for rp in reductions(p) { let mut x = steps.clone(); x[i].preds[j] = rp; out.push(Expr::Path(start.clone(), x)); } }
                if s.test != Test::Node { let mut x = steps.clone(); x[i].test = Test::Node; out.push(Expr::Path(start.clone(), x)); }
            }
            if let Start::Filter(fe, preds) = start {
                for j in 0..preds.len() { let mut p2 = preds.clone(); p2.remove(j); out.push(Expr::Path(Start::Filter(fe.clone(), p2), steps.clone())); }
                for rf in reductions(fe) { out.push(Expr::Path(Start::Filter(Box::new(rf), preds.clone()), steps.clone())); }
                for (j, p) in preds.iter().enumerate() { for rp in reductions(p) { let mut p2 = preds.clone(); p2[j] = rp; out.push(Expr::Path(Start::Filter(fe.clone(), p2), steps.clone())); } }
            }
        }
        _ => {}
    }
    out
}

pub fn size(e: &Expr) -> usize { 1 + sub_exprs(e).iter().map(size).sum::<usize>() + match e { Expr::Path(_, s) => s.len(), _ => 0 } }

pub fn shrink(e: &Expr, fails: &mut dyn FnMut(&Expr) -> bool) -> Expr {
    let mut cur = e.clone();
    let mut budget = 300;
    'outer: loop {
        let mut cands = reductions(&cur);
        cands.sort_by_key(size);
        for c in cands {
            if budget == 0 { break 'outer; }
            if size(&c) >= size(&cur) { continue; }
            budget -= 1;
            if fails(&c) { cur = c; continue 'outer; }
        }
        break;
    }
    cur
}
