//! Small helpers: JSON string writer, canonical escaping, FNV hash, hex.
use std::fmt::Write;

pub fn jstr(s: &str) -> String {
    let mut o = String::with_capacity(s.len() + 2);
    o.push('"');
    for c in s.chars() {
        match c {
            '"' => o.push_str("\\\""),
            '\\' => o.push_str("\\\\"),
            '\n' => o.push_str("\\n"),
            '\r' => o.push_str("\\r"),
            '\t' => o.push_str("\\t"),
            c if (c as u32) < 0x20 => { let _ = write!(o, "\\u{:04x}", c as u32); }
            c => o.push(c),
        }
    }
    o.push('"');
    o
}

/// escaping used in canonical dumps (same as refxml.c)
pub fn esc(s: &str) -> String {
    let mut o = String::with_capacity(s.len() + 2);
    o.push('"');
    for c in s.chars() {
        match c {
            '\\' => o.push_str("\\\\"),
            '\n' => o.push_str("\\n"),
            '\r' => o.push_str("\\r"),
            '\t' => o.push_str("\\t"),
            '"' => o.push_str("\\q"),
            c => o.push(c),
        }
    }
    o.push('"');
    o
}
pub fn esc_opt(s: Option<&str>) -> String { match s { Some(s) => esc(s), None => "~".to_string() } }

pub fn fnv(s: &str) -> u64 {
    let mut h = 0xcbf29ce484222325u64;
    for b in s.as_bytes() { h ^= *b as u64; h = h.wrapping_mul(0x100000001b3); }
    h
}

pub fn hex_encode(s: &str) -> String {
    let mut o = String::with_capacity(s.len() * 2);
    for b in s.as_bytes() { let _ = write!(o, "{:02x}", b); }
    o
}
pub fn hex_decode(s: &str) -> Option<String> {
    if s.len() % 2 != 0 { return None; }
    let mut v = Vec::with_capacity(s.len() / 2);
    for i in (0..s.len()).step_by(2) { v.push(u8::from_str_radix(&s[i..i + 2], 16).ok()?); }
    String::from_utf8(v).ok()
}

pub fn truncate(s: &str, n: usize) -> String {
    if s.chars().count() <= n { s.to_string() } else { let t: String = s.chars().take(n).collect(); format!("{}…(+{} chars)", t, s.chars().count() - n) }
}

/// first line where two dumps differ (for diagnostics)
pub fn first_diff(a: &str, b: &str) -> String {
    let mut ia = a.lines(); let mut ib = b.lines(); let mut n = 0;
    loop {
        n += 1;
        match (ia.next(), ib.next()) {
            (None, None) => return "identical".into(),
            (x, y) if x == y => continue,
            (x, y) => return format!("line {}: expected {:?} observed {:?}", n, x.unwrap_or("<end>"), y.unwrap_or("<end>")),
        }
    }
}
