//! XPath properties: C05 (values), C06 (totality), C07 (node-set invariants and algebra),
//! C08 (equivalent spellings, precedence), C09 (scalar library), C10 (namespaces), C19 (determinism).
use crate::model::{self, Doc, GenCfg, Gen, Style};
use crate::refxml;
use crate::rng::Rng;
use crate::xp::{self, Axis, Env, Expr, Op, RErr, RKind, RTree, Spelling, Start, Step, Test, XGen, RV};
use crate::{guarded, norm_msg, Caught, Ctx};
use std::collections::HashMap;
use xml_dom::{AsExpandedName, AsNode, Attr, Node as DomNode};
use xml_xpath::eval::model::{Context as XContext, Value};

// ------------------------------------------------------------------------------------------------
// outcomes in a comparable form

#[derive(Clone, Debug, PartialEq)]
pub enum Outcome { Nodes(Vec<String>), Bool(bool), Num(f64), Str(String), Err(String), Panic(String), Steps }

impl Outcome {
    pub fn brief(&self) -> String {
        match self {
            Outcome::Nodes(v) => format!("nodes[{}]{{{}}}", v.len(), crate::util::truncate(&v.join(" "), 200)),
            Outcome::Bool(b) => format!("bool {}", b), Outcome::Num(n) => format!("num {}", xp::num_to_str(*n)), Outcome::Str(s) => format!("str {:?}", crate::util::truncate(s, 120)),
            Outcome::Err(e) => format!("error {}", e), Outcome::Panic(p) => format!("PANIC {}", p), Outcome::Steps => "STEP BUDGET EXCEEDED".into(),
        }
    }
}

fn num_same(a: f64, b: f64) -> bool { (a.is_nan() && b.is_nan()) || a == b }

/// locators of namespace nodes are compared without their owner (namespace nodes have no usable identity in xml-rs)
fn canon_loc(l: &str) -> String { match l.find('#') { Some(p) => l[p..].to_string(), None => l.to_string() } }

/// within the attributes (and namespace nodes) of one element the order is implementation dependent
fn canon_seq(v: &[String]) -> Vec<String> {
    let mut out: Vec<String> = vec![];
    let mut i = 0;
    while i < v.len() {
        let owner = |s: &str| -> Option<String> { s.find('@').map(|p| s[..p].to_string()) };
        if let Some(o) = owner(&v[i]) {
            let mut j = i; let mut grp = vec![];
            while j < v.len() && owner(&v[j]).as_deref() == Some(o.as_str()) { grp.push(v[j].clone()); j += 1; }
            grp.sort(); out.extend(grp); i = j;
        } else if v[i].starts_with('#') {
            let mut j = i; let mut grp = vec![];
            while j < v.len() && v[j].starts_with('#') { grp.push(v[j].clone()); j += 1; }
            grp.sort(); out.extend(grp); i = j;
        } else { out.push(v[i].clone()); i += 1; }
    }
    out
}

/// None = equal; Some(kind) = how they differ
pub fn diff(expected: &Outcome, observed: &Outcome) -> Option<&'static str> {
    match (expected, observed) {
        (Outcome::Nodes(a), Outcome::Nodes(b)) => {
            let (a, b): (Vec<String>, Vec<String>) = (a.iter().map(|x| canon_loc(x)).collect(), b.iter().map(|x| canon_loc(x)).collect());
            let mut sb = b.clone(); sb.sort(); let before = sb.len(); sb.dedup();
            let mut sa = a.clone(); sa.sort(); sa.dedup();
            if sa != sb { return Some("nodeset-members"); }
            if before != sb.len() && a.len() == sa.len() { return Some("nodeset-dup"); }
            if canon_seq(&a) != canon_seq(&b) { return Some("nodeset-order"); }
            None
        }
        (Outcome::Bool(a), Outcome::Bool(b)) => if a == b { None } else { Some("bool") },
        (Outcome::Num(a), Outcome::Num(b)) => if num_same(*a, *b) { None } else { Some("num") },
        (Outcome::Str(a), Outcome::Str(b)) => if a == b { None } else { Some("str") },
        (Outcome::Err(_), Outcome::Err(_)) => None,
        (Outcome::Err(_), Outcome::Panic(_)) | (_, Outcome::Panic(_)) => Some("panic"),
        (_, Outcome::Steps) => Some("steps"),
        (Outcome::Err(_), _) => Some("value-where-error-expected"),
        (_, Outcome::Err(_)) => Some("error-where-value-expected"),
        _ => Some("value-kind"),
    }
}

// ------------------------------------------------------------------------------------------------
// xml-rs side

pub struct Subject { pub dom: xml_dom::XmlDocument, pub idmap: HashMap<usize, String> }

fn attr_qname(a: &xml_dom::XmlAttr) -> String {
    let n = a.as_node();
    match n.as_expanded_name() { Ok(Some((l, Some(p), _))) if p != "xmlns" => format!("{}:{}", p, l), _ => a.name() }
}

fn map_node(n: &xml_dom::XmlNode, loc: String, map: &mut HashMap<usize, String>, budget: &mut usize) {
    if *budget == 0 { return; }
    *budget -= 1;
    map.insert(n.id(), loc.clone());
    if let xml_dom::XmlNode::Element(e) = n {
        if let Some(attrs) = e.attributes() { for a in attrs.iter() { let id = a.as_node().id(); if id != 0 { map.insert(id, format!("{}@{}", loc, attr_qname(&a))); } } }
        let mut idx = 0;
        for c in e.child_nodes().iter() {
            // an empty merged text node does not exist in the XPath data model
            if let xml_dom::XmlNode::ExpandedText(t) = &c { if xml_dom::CharacterData::data(t).map(|d| d.is_empty()).unwrap_or(false) { map.insert(c.id(), format!("{}/empty-text", loc)); continue; } }
            map_node(&c, format!("{}/{}", loc, idx), map, budget);
            idx += 1;
        }
    }
}

pub fn subject(text: &str, merged: bool) -> Result<Subject, String> {
    let p = crate::obs::parse_dom(text, merged)?;
    if p.rest != 0 { return Err("rest".into()); }
    Ok(subject_of(p.doc))
}

/// locator map of a live document (in whatever view its context selects)
pub fn subject_of(doc: xml_dom::XmlDocument) -> Subject {
    let mut map = HashMap::new();
    map.insert(doc.as_node().id(), "/".to_string());
    let mut idx = 0; let mut budget = 100_000usize;
    for c in doc.child_nodes().iter() {
        if let xml_dom::XmlNode::DocumentType(_) = c { map.insert(c.id(), "!doctype".into()); continue; }
        map_node(&c, format!("/{}", idx), &mut map, &mut budget);
        idx += 1;
    }
    Subject { dom: doc, idmap: map }
}

pub fn locator_of(s: &Subject, n: &xml_dom::XmlNode) -> String {
    match n {
        xml_dom::XmlNode::Namespace(ns) => format!("#{}={}", { let p = ns.node_name(); if p == "xmlns" { String::new() } else { p } }, ns.node_value().ok().flatten().unwrap_or_default()),
        xml_dom::XmlNode::Attribute(a) if n.id() == 0 => format!("?@{}", attr_qname(a)),
        _ => s.idmap.get(&n.id()).cloned().unwrap_or_else(|| format!("?unmapped-{:?}-{}", n.node_type(), n.id())),
    }
}

pub const STEP_BUDGET: u64 = 20_000_000;

pub fn value_outcome(s: &Subject, v: Result<Value, String>) -> Outcome {
    match v {
        Ok(Value::Node(ns)) => Outcome::Nodes(ns.iter().map(|n| locator_of(s, n)).collect()),
        Ok(Value::Boolean(b)) => Outcome::Bool(b),
        Ok(Value::Number(n)) => Outcome::Num(n),
        Ok(Value::Text(t)) => Outcome::Str(t),
        Err(e) => Outcome::Err(e),
    }
}

/// evaluate with xml-rs under a fresh context; returns the outcome and the logical steps used
pub fn xmlrs_eval(s: &Subject, expr: &str, ns: &[(String, String)], default_ns: Option<&str>, budget: u64) -> (Outcome, u64) {
    let mut cx = XContext::default();
    for (p, u) in ns { cx.add_ns(Some(p.as_str()), u.as_str()); }
    if let Some(d) = default_ns { cx.add_ns(None, d); }
    xmlrs_eval_cx(s, expr, &mut cx, budget)
}

pub fn xmlrs_eval_cx(s: &Subject, expr: &str, cx: &mut XContext, budget: u64) -> (Outcome, u64) {
    xml_nom::verif::reset();
    xml_nom::verif::set_budget(budget);
    let r = guarded(|| xml_xpath::query(s.dom.clone(), expr, cx).map_err(|e| match e { xml_xpath::error::Error::ExprRemain(r) => format!("syntax(remain {:?})", crate::util::truncate(r, 20)), xml_xpath::error::Error::ExprSyntax(_) => "syntax".to_string(), xml_xpath::error::Error::Eval(ev) => format!("eval({:?})", ev) }));
    let steps = xml_nom::verif::read();
    let o = match r {
        Caught::Ok(v) => value_outcome(s, v),
        Caught::Panic { file, msg } => Outcome::Panic(format!("{}/{}", file, norm_msg(&msg))),
        Caught::Budget(_) => Outcome::Steps,
    };
    (o, steps)
}

// ------------------------------------------------------------------------------------------------
// references

pub fn ref_outcome(tree: &RTree, v: Result<RV, RErr>) -> Outcome {
    match v {
        Ok(RV::Nodes(ns)) => Outcome::Nodes(ns.iter().map(|&n| tree.nodes[n].locator.clone()).collect()),
        Ok(RV::Bool(b)) => Outcome::Bool(b), Ok(RV::Num(n)) => Outcome::Num(n), Ok(RV::Str(s)) => Outcome::Str(s),
        Err(e) => Outcome::Err(format!("{:?}", e)),
    }
}

pub fn ref_eval(tree: &RTree, e: &Expr, ns: &[(String, String)], default_ns: Option<&str>) -> Outcome { ref_eval_dev(tree, e, ns, default_ns, xp::Dev::default()).0 }

/// reference evaluation under a set of bug-compatible switches; the flag says that the evaluation touched
/// behaviour of a recorded finding that the reference cannot emulate
pub fn ref_eval_dev(tree: &RTree, e: &Expr, ns: &[(String, String)], default_ns: Option<&str>, dev: xp::Dev) -> (Outcome, bool) {
    let env = Env { tree, ns: ns.to_vec(), default_ns: default_ns.map(|s| s.to_string()), dev, tainted: std::cell::Cell::new(false) };
    let o = ref_outcome(tree, env.eval(e, xp::Cx { node: 0, pos: 1, size: 1 }));
    (o, env.tainted.get())
}

fn unesc(s: &str) -> String {
    let s = s.trim(); let s = s.strip_prefix('"').unwrap_or(s); let s = s.strip_suffix('"').unwrap_or(s);
    let mut o = String::new(); let mut it = s.chars();
    while let Some(c) = it.next() { if c == '\\' { match it.next() { Some('n') => o.push('\n'), Some('r') => o.push('\r'), Some('t') => o.push('\t'), Some('q') => o.push('"'), Some('\\') => o.push('\\'), _ => {} } } else { o.push(c); } }
    o
}

/// libxml2's outcome (O3); None when libxml2 cannot be asked (NUL in the expression, document not accepted)
pub fn lib_eval(text: &str, expr: &str, ns: &[(String, String)]) -> Option<Outcome> {
    let out = refxml::xpath(text, expr, ns)?;
    let mut lines = out.lines();
    let head = lines.next()?;
    if head == "NODOC" { return None; }
    if head == "ERR" || head == "OTHER" { return Some(Outcome::Err("libxml2".into())); }
    let (k, rest) = head.split_at(1);
    match k {
        "N" => Some(Outcome::Nodes(lines.map(|l| l.to_string()).collect())),
        "B" => Some(Outcome::Bool(rest.trim() == "true")),
        "F" => { let t = rest.trim(); Some(Outcome::Num(match t { "NaN" => f64::NAN, "Infinity" => f64::INFINITY, "-Infinity" => f64::NEG_INFINITY, _ => t.parse().unwrap_or(f64::NAN) })) }
        "S" => Some(Outcome::Str(unesc(rest))),
        _ => None,
    }
}

// ------------------------------------------------------------------------------------------------
// shared case construction

/// `alts`: the same tree with the attribute nodes of each element in other relative orders (XPath leaves that
/// order to the implementation); empty if no element has two attributes
pub struct XCase { pub doc: Doc, pub text: String, pub tree: RTree, pub alts: Vec<RTree>, pub subj: Subject, pub ns: Vec<(String, String)> }

pub fn alt_trees(doc: &Doc, tree: &RTree) -> Vec<RTree> {
    let most = tree.nodes.iter().map(|n| n.attrs.len()).max().unwrap_or(0);
    match most { 0 | 1 => vec![], 2 => vec![RTree::build_ord(doc, 1)], _ => (1..=3).map(|o| RTree::build_ord(doc, o)).collect() }
}

/// generator profile for XPath documents: everything XPath can see; see known_findings.json for the exclusions
pub fn xdoc_cfg() -> GenCfg {
    let mut c = GenCfg::xpath();
    c.attlist_effective = false; // defaulted attributes are synthesised on every access (no identity): own workload in C11
    c
}

pub fn make_case(r: &mut Rng, cfg: GenCfg) -> Result<XCase, String> {
    let doc = { let mut g = Gen::new(r, cfg); g.doc() };
    let text = model::render(&doc, r, Style { minimal: false });
    let tree = RTree::build(&doc);
    let alts = alt_trees(&doc, &tree);
    let subj = subject(&text, true)?;
    // caller bindings: the document's own prefixes bound to the same URIs where unambiguous, plus a renamed one
    let mut ns: Vec<(String, String)> = vec![];
    fn walk(e: &model::Elem, ns: &mut Vec<(String, String)>) { for (p, u) in &e.nsdecls { if let Some(p) = p { if !u.is_empty() && !ns.iter().any(|x| &x.0 == p) { ns.push((p.clone(), u.clone())); } } } for c in &e.children { if let model::Node::Elem(x) = c { walk(x, ns); } } }
    walk(&doc.root, &mut ns);
    Ok(XCase { doc, text, tree, alts, subj, ns })
}

fn raw_equals_merged(doc: &Doc) -> bool {
    fn ok(e: &model::Elem) -> bool { e.children.iter().all(|c| match c { model::Node::Elem(x) => ok(x), model::Node::CData(_) | model::Node::CharRef(..) | model::Node::EntRef(_) => false, _ => true }) }
    ok(&doc.root)
}

pub enum Judgement {
    Agree,
    /// explained exactly by the recorded findings in the mask (or, if `excluded`, inside a zone the reference cannot emulate)
    Deviation { mask: u32, excluded: bool },
    Violation { kind: &'static str, detail: String },
    Inconclusive(String),
}

fn masks_by_popcount() -> Vec<u32> { let mut v: Vec<u32> = (1..(1u32 << xp::Dev::COUNT)).collect(); v.sort_by_key(|m| m.count_ones()); v }

/// The comparison of one (document, expression) pair: xml-rs against O2, recorded deviations, then O3.
pub fn judge(case: &XCase, e: &Expr, estr: &str, subj: &Subject) -> Judgement { judge_ns(case, e, estr, subj, &case.ns) }

pub fn judge_ns(case: &XCase, e: &Expr, estr: &str, subj: &Subject, ns: &[(String, String)]) -> Judgement {
    let exp = ref_eval(&case.tree, e, ns, None);
    let (got, _) = xmlrs_eval(subj, estr, ns, None, STEP_BUDGET);
    judge_outcomes(case, e, estr, ns, &exp, &got)
}

pub fn judge_outcomes(case: &XCase, e: &Expr, estr: &str, ns: &[(String, String)], exp: &Outcome, got: &Outcome) -> Judgement {
    let kind = match diff(exp, got) { None => return Judgement::Agree, Some(k) => k };
    if kind == "panic" || kind == "steps" { return Judgement::Violation { kind, detail: format!("expected {} observed {}", exp.brief(), got.brief()) }; }
    // the relative order of the attribute nodes of one element is implementation dependent: any of them is right
    let mut order_open = false;
    for t in &case.alts {
        let ea = ref_eval(t, e, ns, None);
        if diff(&ea, got).is_none() { return Judgement::Agree; }
        if diff(exp, &ea).is_some() { order_open = true; }
    }
    // is the disagreement explained exactly by recorded findings?
    let mut excluded: Option<u32> = None;
    for m in masks_by_popcount() {
        for t in std::iter::once(&case.tree).chain(case.alts.iter()) {
            let (em, tainted) = ref_eval_dev(t, e, ns, None, xp::Dev::from_mask(m));
            if tainted { if excluded.is_none() { excluded = Some(m); } continue; }
            if diff(&em, got).is_none() { return Judgement::Deviation { mask: m, excluded: false }; }
        }
    }
    if let Some(m) = excluded { return Judgement::Deviation { mask: m, excluded: true }; }
    if order_open { return Judgement::Inconclusive("the value depends on the relative order of one element's attributes, which XPath leaves open".into()); }
    // O3 must side with O2 (number -> string is decided by O2 alone: libxml2 prints exponents)
    match lib_eval(&case.text, estr, ns) {
        Some(l) => {
            if let Some(k2) = diff(exp, &l) {
                let single = matches!((exp, &l), (Outcome::Str(a), Outcome::Str(b)) if a.contains(|c: char| c.is_ascii_digit()) && has_exponent(b));
                if !single { return Judgement::Inconclusive(format!("O2 {} vs O3 {} ({})", exp.brief(), l.brief(), k2)); }
            }
        }
        None => return Judgement::Inconclusive("libxml2 unavailable for this case".into()),
    }
    Judgement::Violation { kind, detail: format!("expected {} observed {}", exp.brief(), got.brief()) }
}

/// a number printed with an exponent (digit, 'e', sign, digit) occurs in the string
fn has_exponent(s: &str) -> bool {
    let b = s.as_bytes();
    (1..b.len().saturating_sub(2)).any(|i| b[i] == b'e' && b[i - 1].is_ascii_digit() && (b[i + 1] == b'+' || b[i + 1] == b'-') && b[i + 2].is_ascii_digit())
}

fn features_sig(e: &Expr) -> String { xp::feature_set(e).into_iter().filter(|f| !matches!(f.as_str(), "num" | "lit" | "abs")).collect::<Vec<_>>().join("+") }

// ------------------------------------------------------------------------------------------------
// C05

/// expression generator restricted to the zone in which no recorded finding is active
pub fn c05_gen(doc: &Doc) -> XGen {
    let mut g = XGen::for_doc(doc);
    g.axes.retain(|a| *a != Axis::Namespace); // namespace axis: own sub-workload (no node identity in xml-rs)
    g.funcs.retain(|f| *f != "id");
    g
}

pub fn c05(ctx: &mut Ctx) {
    let ndocs: u64 = if ctx.thorough { 1_500_000 } else { 100_000 };
    let per_doc = if ctx.thorough { 40 } else { 30 };
    for d in 0..ndocs {
        if !ctx.mine(d) { continue; }
        let mut r = ctx.rng(d);
        ctx.begin(d, "");
        let case = match make_case(&mut r, xdoc_cfg()) { Ok(c) => c, Err(e) => { ctx.inconclusive(&format!("document_not_usable:{}", crate::util::truncate(&e, 40))); continue; } };
        let raw = if raw_equals_merged(&case.doc) { subject(&case.text, false).ok() } else { None };
        let g = c05_gen(&case.doc);
        for k in 0..per_doc {
            let e = g.top(&mut r);
            let sp = Spelling { abbrev: r.chance(1, 2), spaces: r.chance(1, 3), full_parens: false, redundant: false, outer_ws: false };
            let estr = xp::render(&e, sp, Some(&mut r));
            ctx.evaluations += 1;
            for f in xp::feature_set(&e) { ctx.count(&format!("f/{}", f)); }
            if d % 97 == 0 && k == 0 { ctx.sample(&format!("{}  ON  {}", estr, case.text)); }
            if k % 8 == 7 {
                // the caller binds a default namespace as well (one of the document's URIs, or one nothing is in)
                let dflt = match case.ns.first() { Some(x) if r.chance(2, 3) => x.1.clone(), _ => "urn:none".to_string() };
                match judge_default_ns(&case, &e, &estr, &case.subj, &case.ns, &dflt) {
                    Judgement::Agree => ctx.count("agree/default-namespace"),
                    Judgement::Deviation { mask, excluded } => { let sig = format!("C05/deviation/{}{}", xp::Dev::names(mask), if excluded { "/excluded" } else { "" }); ctx.violation(d, &sig, &format!("expr {} :: default namespace {} :: doc {}", estr, dflt, case.text), &[("doc", &case.text), ("expr", &estr), ("default", &dflt)]); }
                    Judgement::Violation { kind, detail } => { if kind == "panic" || kind == "steps" { ctx.count("totality-failure(see C06)"); } ctx.violation(d, &format!("C05/default-namespace/{}", kind), &format!("{} :: expr {} :: default namespace {} :: doc {}", detail, estr, dflt, case.text), &[("doc", &case.text), ("expr", &estr), ("default", &dflt)]); }
                    Judgement::Inconclusive(why) => { ctx.inconclusive("oracle_disagreement"); let _ = why; }
                }
            }
            for (view, subj) in [("merged", Some(&case.subj)), ("raw", raw.as_ref())] {
                let subj = match subj { Some(s) => s, None => continue };
                match judge(&case, &e, &estr, subj) {
                    Judgement::Agree => { ctx.count(&format!("agree/{}", view)); ctx.nontrivial(&format!("{}|{}", estr, case.text)); }
                    Judgement::Deviation { mask, excluded } => { let sig = format!("C05/deviation/{}{}", xp::Dev::names(mask), if excluded { "/excluded" } else { "" }); ctx.violation(d, &sig, &format!("expr {} :: doc {}", estr, case.text), &[("doc", &case.text), ("expr", &estr)]); }
                    Judgement::Violation { kind, detail } => {
                        if kind == "panic" || kind == "steps" { ctx.count("totality-failure(see C06)"); ctx.violation(d, &format!("C05/{}", kind), &format!("{} :: expr {} :: doc {}", detail, estr, case.text), &[("doc", &case.text), ("expr", &estr)]); continue; }
                        // shrink the expression while the same kind of disagreement persists
                        let small = xp::shrink(&e, &mut |c: &Expr| { let s = xp::render(c, Spelling::abbreviated(), None); matches!(judge(&case, c, &s, subj), Judgement::Violation { kind: k, .. } if k == kind) });
                        let sstr = xp::render(&small, Spelling::abbreviated(), None);
                        ctx.violation(d, &format!("C05/{}/{}", kind, features_sig(&small)), &format!("{} :: expr {} :: shrunk {} :: view {} :: doc {}", detail, estr, sstr, view, case.text), &[("doc", &case.text), ("expr", &estr), ("shrunk", &sstr)]);
                    }
                    Judgement::Inconclusive(why) => { ctx.inconclusive("oracle_disagreement"); if ctx.notes.len() < 10 { ctx.notes.push(format!("{} :: {} :: {}", why, estr, case.text)); } }
                }
            }
        }
    }
}

// ------------------------------------------------------------------------------------------------
// C06: totality of XPath parsing and evaluation

/// documents that stress sibling navigation and depth, in addition to random ones
fn c06_special_docs() -> Vec<String> {
    vec![
        "<r><?p a?><?p b?><?q c?><a/><?p d?><b/><!--c--><!--d-->t<a/></r>".to_string(),
        "<?p a?><?p b?><!--c--><r a='1' b='2'><a><a><a><a><a><a>x</a></a></a></a></a></a></r><?z?><!--e-->".to_string(),
        "<!DOCTYPE r [<!ENTITY e 'v'><!ATTLIST a d CDATA 'dv'>]><r xmlns:p='urn:a'><a/><p:a>&e;<![CDATA[c]]>&#65;</p:a><a d='w'/></r>".to_string(),
        "<r/>".to_string(),
    ]
}

const XP_ALPHABET: &[&str] = &["/", "//", "[", "]", "(", ")", "@", "::", ".", "..", "*", "|", "+", "-", "=", "!=", "<", ">", "<=", ">=", " or ", " and ", " div ", " mod ", ",", "'", "\"", "$", ":", "1", "0.5", "a", "text()", "node()", "child::", "ancestor::", "last()", "position()", " ", "\u{e9}", "1e3", "-", "--", "processing-instruction(", "id(", "$v", "comment()", "namespace::", "self::", "p:", "p:*", "]]", "[1]", "[0]", "9999999999999999999999", "\u{0}"];

fn mutate_expr(s: &str, r: &mut Rng) -> String {
    let cs: Vec<char> = s.chars().collect();
    let mut out = String::new();
    let p = if cs.is_empty() { 0 } else { r.below(cs.len() + 1) };
    out.extend(cs[..p].iter());
    match r.below(4) {
        0 => { out.push_str(r.pick_s(XP_ALPHABET)); out.extend(cs[p..].iter()); }
        1 => { let q = (p + r.range(1, 4)).min(cs.len()); out.extend(cs[q..].iter()); }
        2 => { out.push_str(r.pick_s(XP_ALPHABET)); let q = (p + 1).min(cs.len()); out.extend(cs[q..].iter()); }
        _ => { let q = r.below(cs.len() + 1); let (a, b) = (p.min(q), p.max(q)); out = cs[..a].iter().collect(); out.extend(cs[a..b].iter()); out.extend(cs[a..b].iter()); out.extend(cs[b..].iter()); }
    }
    out
}

const UNSUPPORTED: &[&str] = &["$x", "$p:x", "id('a')", "id(//a)", "//a[id('x')]", "processing-instruction('p')", "//processing-instruction('p')[1]", "r/processing-instruction('q')", "..", "/..", "/../a", "//@*/..", "//@*/../a", "//@*/parent::*", "//namespace::*/..", "//namespace::*/parent::node()", "//@*/following::*", "//@*/preceding-sibling::node()", "//@*/ancestor::*", "//namespace::*/ancestor-or-self::node()", "//text()/..", "//comment()/../..", "substring('abc', 0)", "substring('abc', -1, 3)", "substring('abc', 1 div 0)", "substring('abc', 0 div 0)", "substring('h\u{e9}llo', 2, 2)", "substring('abc', 2, -1 div 0)", "substring('abc', -1 div 0, 1 div 0)", "substring('abc', 1e300)", "round(1 div 0)", "round(0 div 0)", "string-length(//a)", "count(1)", "count('a')", "sum('a')", "sum(1)", "'a' | 'b'", "1 | //a", "(1)[1]", "'a'/b", "1/a", "true()/a", "(//a)[0 div 0]", "//a[1 div 0]", "//a[-1]", "//a[99999999999999999999]", "//a[position() = 1e300]", "concat('a')", "concat()", "nosuchfunction()", "p:f()", "q:a", "q:*", "//q:*", "last(1)", "position(1)", "not()", "not(1,2)", "true(1)", "lang()", "translate('a','b')", "number(1,2)", "boolean()", "string(1,2)", "name(1)", "local-name('a')", "namespace-uri(1)", "/", "/*", "//*", "//node()", "//.", "//..", ".//.", "./.", "@*", "//@*", "self::node()", "parent::node()", "ancestor::node()", "ancestor-or-self::node()", "preceding::node()", "following::node()", "preceding-sibling::node()", "following-sibling::node()", "namespace::node()", "attribute::node()", "//a/following::node()", "//a/preceding::node()", "//processing-instruction()/following-sibling::node()", "//processing-instruction()/preceding-sibling::node()", "//processing-instruction()/following::node()", "//comment()/following-sibling::processing-instruction()", "//text()/following-sibling::node()", "", " ", "(", ")", "[", "]", "//", "/ /", "a/", "a//", "a[", "a[]", "a[1", "()", "(1", "1 +", "+ 1", "1 div", "div", "a | ", "| a", "@", "@@a", "a::b", "child::", "::a", "child::child::a", "a:b:c", ":a", "a:", "'abc", "\"abc", "1.2.3", "1..2", "..1", ". .", ".. ..", "a b", "1 2", "a(", "a()", "text(", "text(1)", "node('a')", "comment('c')", "processing-instruction(1)", "processing-instruction(a)", "-", "--", "- - 1", "-a", "--a", "1 - - 1", "1--1", "a-1", "a -1", "a - 1", "5 mod 2", "5mod2", "5 mod2", "5 div0", "1 or2", "1 and2", "1or 2", "or", "and", "div", "mod", "or or or", "and and and", "div div div", "mod mod mod", "* * *", "//*[* * *]", "1 * *", "* * 1"];

fn step_budget(expr_len: usize, nodes: usize) -> u64 { 2000 * (expr_len as u64 + 16) * (nodes as u64 + 8) }

/// one totality evaluation: returns Some((class, detail)) if the oracle fires
fn c06_eval(subj: &Subject, nodes: usize, expr: &str, ctx: Option<&mut Ctx>) -> Option<(String, String)> {
    let budget = step_budget(expr.len(), nodes);
    let (o, steps) = xmlrs_eval(subj, expr, &[("p".to_string(), "urn:a".to_string())], None, budget);
    if let Some(c) = ctx {
        c.steps(steps);
        let ratio = steps * 1000 / ((expr.len() as u64 + 16) * (nodes as u64 + 8));
        let e = c.hist.entry("max_millisteps_per_len_x_nodes".into()).or_insert(0); if ratio > *e { *e = ratio; }
        c.count(match &o { Outcome::Err(_) => "outcome/error", Outcome::Nodes(_) => "outcome/node-set", Outcome::Panic(_) => "outcome/PANIC", Outcome::Steps => "outcome/STEPS", _ => "outcome/scalar" });
    }
    match o {
        Outcome::Panic(p) => Some((format!("panic/{}", p), "panic".into())),
        Outcome::Steps => Some(("steps".into(), format!("more than {} logical steps for an expression of {} bytes on {} nodes", budget, expr.len(), nodes))),
        _ => None,
    }
}

pub fn xfamily_input(fam: &str, n: usize) -> (String, String) {
    let rep = |s: &str, n: usize| s.repeat(n);
    let chain = |d: usize| format!("{}x{}", rep("<a>", d), rep("</a>", d));
    let wide = |w: usize| format!("<r>{}</r>", rep("<a>1</a>", w));
    match fam {
        "parens" => (wide(4), format!("{}1{}", rep("(", n), rep(")", n))),
        "parens-path" => (wide(4), format!("{}//a{}", rep("(", n), rep(")", n))),
        "calls" => (wide(4), format!("{}'x'{}", rep("string(", n), rep(")", n))),
        "not-calls" => (wide(4), format!("{}1{}", rep("not(", n), rep(")", n))),
        "predicates-nested" => (chain(40), format!("//a{}{}", rep("[a", n), rep("]", n))),
        "predicates-chain" => (wide(8), format!("//a{}", rep("[1]", n))),
        "unions" => (wide(8), format!("//a{}", rep("|//a", n))),
        "path-child" => (chain(40), format!("/a{}", rep("/a", n))),
        "path-dslash" => (chain(24), format!("//a{}", rep("//a", n))),
        "path-dslash-star" => (chain(24), format!("//*{}", rep("//*", n))),
        "path-parent" => (chain(24), format!("//a{}", rep("/..//a", n))),
        "path-ancestor" => (chain(24), format!("//a{}", rep("/ancestor::a/descendant::a", n))),
        // fan out and converge again without any '//': every context node must be met once per step, not once per route
        "path-up-down" => (wide(8), format!("count(/r{})", rep("/*/..", n))),
        "path-up-down-named" => (wide(8), format!("count(/r{})", rep("/a/parent::r", n))),
        "path-siblings" => (wide(8), format!("count(/r/a{})", rep("/following-sibling::a/preceding-sibling::a", n))),
        "path-attr-parent" => (format!("<r>{}</r>", rep("<a x='1' y='2' z='3'/>", 4)), format!("count(/r/a{})", rep("/@*/..", n))),
        "path-self-chain" => (wide(8), format!("count(//a{})", rep("/self::a/.", n))),
        "path-text-parent" => (wide(8), format!("count(/r{})", rep("/a/text()/../..", n))),
        "path-following" => (wide(24), format!("//a{}", rep("/following::a/preceding::a", n))),
        "minus" => (wide(2), format!("1{}", rep("-1", n))),
        "unary-minus" => (wide(2), format!("{}1", rep("-", n))),
        "plus" => (wide(2), format!("1{}", rep(" + 1", n))),
        "or-chain" => (wide(2), format!("0{}", rep(" or 0", n))),
        "eq-chain" => (wide(2), format!("1{}", rep(" = 1", n))),
        "literal" => (wide(2), format!("'{}'", rep("ab ", n))),
        "number" => (wide(2), format!("{}.{}", rep("9", n.max(1)), rep("9", n))),
        "concat-args" => (wide(2), format!("concat('a'{})", rep(",'a'", n.max(1)))),
        "name-length" => (wide(2), rep("n", n.max(1))),
        "doc-width" => (wide(n), "count(//a[. = 1]/following-sibling::a[1])".to_string()),
        "doc-depth" => (chain(n.min(900)), "count(//a/ancestor::a)".to_string()),
        "doc-pis" => (format!("<r>{}<a/></r>", rep("<?p d?>", n)), "count(//processing-instruction()/following-sibling::node())".to_string()),
        "open-parens" => (wide(2), rep("(", n)),
        "open-brackets" => (wide(2), format!("a{}", rep("[a", n))),
        "slashes" => (wide(2), rep("/", n)),
        _ => ("<r/>".into(), "1".into()),
    }
}
pub const XFAMILIES: &[&str] = &["parens", "parens-path", "calls", "not-calls", "predicates-nested", "predicates-chain", "unions", "path-child", "path-dslash", "path-dslash-star", "path-parent", "path-ancestor", "path-up-down", "path-up-down-named", "path-siblings", "path-attr-parent", "path-self-chain", "path-text-parent", "path-following", "minus", "unary-minus", "plus", "or-chain", "eq-chain", "literal", "number", "concat-args", "name-length", "doc-width", "doc-depth", "doc-pis", "open-parens", "open-brackets", "slashes"];

fn xfamily_max(fam: &str, thorough: bool) -> usize {
    match fam {
        "doc-width" | "doc-pis" => if thorough { 4096 } else { 512 },
        "doc-depth" => 512,
        "path-dslash" | "path-dslash-star" | "path-parent" | "path-ancestor" | "path-following" | "path-up-down" | "path-up-down-named" | "path-siblings" | "path-attr-parent" | "path-self-chain" | "path-text-parent" => if thorough { 256 } else { 64 },
        _ => if thorough { 16384 } else { 2048 },
    }
}

fn run_xfamily_child(fam: &str, n: usize) -> Result<Option<(String, String)>, String> {
    let exe = std::env::current_exe().map_err(|e| e.to_string())?;
    let out = std::process::Command::new("timeout").arg("--signal=KILL").arg("120").arg(exe).arg("C06").arg("--family").arg(format!("{}:{}", fam, n)).output().map_err(|e| e.to_string())?;
    let so = String::from_utf8_lossy(&out.stdout).to_string();
    use std::os::unix::process::ExitStatusExt;
    if let Some(sig) = out.status.signal() { if sig == 9 { return Err("timeout".into()); } return Ok(Some((format!("abort/{}", fam), format!("child killed by signal {} at n={}", sig, n)))); }
    match out.status.code() {
        Some(0) => { for l in so.lines() { if let Some(rest) = l.strip_prefix("FAMILY-FAIL\t") { let mut p = rest.splitn(2, '\t'); let class = p.next().unwrap_or("").to_string(); return Ok(Some((class, format!("n={} {}", n, p.next().unwrap_or(""))))); } } Ok(None) }
        Some(137) => Err("timeout".into()),
        c => Ok(Some((format!("abort/{}", fam), format!("child exit status {:?} at n={} stderr {}", c, n, crate::util::truncate(&String::from_utf8_lossy(&out.stderr), 200))))),
    }
}

fn count_dom_nodes(s: &Subject) -> usize { s.idmap.len() }

pub fn c06(ctx: &mut Ctx) {
    if let Some(f) = ctx.family.clone() {
        let mut p = f.splitn(2, ':'); let fam = p.next().unwrap().to_string(); let n: usize = p.next().unwrap_or("1").parse().unwrap_or(1);
        let (doc, expr) = xfamily_input(&fam, n);
        let subj = match subject(&doc, true) { Ok(s) => s, Err(e) => { println!("FAMILY-FAIL\tharness/{}\tdocument not usable: {}", fam, e); return; } };
        match c06_eval(&subj, count_dom_nodes(&subj), &expr, None) {
            None => println!("FAMILY-OK steps={} len={}", xml_nom::verif::read(), expr.len()),
            Some((class, detail)) => { let class = if class == "steps" { format!("steps/{}", fam) } else { class }; println!("FAMILY-FAIL\t{}\t{}", class, detail.replace('\n', " ")) }
        }
        return;
    }
    let ndocs: u64 = if ctx.thorough { 400_000 } else { 30_000 };
    let per_doc = if ctx.thorough { 80 } else { 60 };
    let specials = c06_special_docs();
    for d in 0..ndocs {
        if !ctx.mine(d) { continue; }
        let mut r = ctx.rng(d);
        ctx.begin(d, "");
        let (text, gen): (String, XGen) = if (d as usize) < specials.len() * 16 && d % 16 == 0 {
            let t = specials[(d / 16) as usize % specials.len()].clone();
            let mut g = XGen::for_doc(&Doc { decl: None, pre: vec![], doctype: None, mid: vec![], root: model::Elem { local: "r".into(), ..Default::default() }, post: vec![] });
            g.names = vec!["r".into(), "a".into(), "b".into()]; g.prefixes = vec!["p".into()]; g.pi_targets = vec!["p".into(), "q".into()]; g.allow_pi_literal = true;
            (t, g)
        } else {
            let mut cfg = xdoc_cfg(); cfg.attlist_effective = r.chance(1, 4);
            let doc = { let mut g = Gen::new(&mut r, cfg); g.doc() };
            let t = model::render(&doc, &mut r, Style { minimal: false });
            let mut g = XGen::for_doc(&doc); g.allow_pi_literal = true; g.prefixes.push("p".into());
            (t, g)
        };
        let merged = r.chance(3, 4);
        let subj = match subject(&text, merged) { Ok(s) => s, Err(e) => { ctx.inconclusive(&format!("document_not_usable:{}", crate::util::truncate(&e, 40))); continue; } };
        let nodes = count_dom_nodes(&subj);
        for k in 0..per_doc {
            let e = gen.top(&mut r);
            let base = xp::render(&e, Spelling { abbrev: r.chance(1, 2), spaces: r.chance(1, 4), full_parens: false, redundant: r.chance(1, 4), outer_ws: r.chance(1, 8) }, Some(&mut r));
            let (kind, estr) = match k % 6 {
                0 | 1 => ("valid", base),
                2 => ("mutant", mutate_expr(&base, &mut r)),
                3 => ("mutant2", { let m = mutate_expr(&base, &mut r); mutate_expr(&m, &mut r) }),
                4 => ("unsupported", { let u = r.pick_s(UNSUPPORTED).to_string(); match r.below(4) { 0 => u, 1 => format!("{}[{}]", base, u), 2 => format!("count({})", u), _ => format!("{} | {}", u, base) } }),
                _ => ("garbage", { let n = r.range(0, 12); let mut s = String::new(); for _ in 0..n { s.push_str(r.pick_s(XP_ALPHABET)); } s }),
            };
            ctx.evaluations += 1;
            ctx.count(&format!("kind/{}", kind));
            ctx.nontrivial(&format!("{}|{}", estr, text));
            if d % 53 == 0 && k == 2 { ctx.sample(&format!("[{}] {}  ON  {}", kind, estr, crate::util::truncate(&text, 200))); }
            if let Some((class, detail)) = c06_eval(&subj, nodes, &estr, Some(ctx)) {
                // reduce a panicking expression to a short witness: try the listed unsupported constructs alone
                ctx.violation(d, &format!("C06/{}", class), &format!("{} :: expr {} :: doc {}", detail, estr, text), &[("doc", &text), ("expr", &estr)]);
            }
        }
    }
    // every listed construct on every special document (exhaustive over this finite table)
    for (si, sdoc) in specials.iter().enumerate() {
        let idx = 5_000_000 + si as u64;
        if !ctx.mine(idx) { continue; }
        ctx.begin(idx, "table");
        for merged in [true, false] {
            let subj = match subject(sdoc, merged) { Ok(s) => s, Err(_) => continue };
            let nodes = count_dom_nodes(&subj);
            for u in UNSUPPORTED {
                ctx.evaluations += 1; ctx.count("kind/table"); ctx.nontrivial(&format!("{}|{}|{}", u, sdoc, merged));
                if let Some((class, detail)) = c06_eval(&subj, nodes, u, Some(ctx)) { ctx.violation(idx, &format!("C06/{}", class), &format!("{} :: expr {} :: doc {}", detail, u, sdoc), &[("doc", sdoc), ("expr", u)]); }
            }
        }
    }
    // size families, each member in its own process
    for (fi, fam) in XFAMILIES.iter().enumerate() {
        let idx = 10_000_000 + fi as u64;
        if !ctx.mine(idx) { continue; }
        ctx.begin(idx, &format!("family {}", fam));
        let max = xfamily_max(fam, ctx.thorough);
        let mut n = 1usize; let mut last_ok = 0usize;
        loop {
            match run_xfamily_child(fam, n) {
                Ok(None) => { last_ok = n; ctx.count(&format!("family/{}/ok", fam)); }
                Ok(Some((class, detail))) => { ctx.violation(idx, &format!("C06/{}", class), &format!("{} (largest n that passed: {})", detail, last_ok), &[("family", fam), ("n", &n.to_string())]); break; }
                Err(why) => { ctx.inconclusive(&format!("family_{}_{}", fam, why)); break; }
            }
            if n >= max { break; }
            n = (n * 2).min(max);
        }
        ctx.evaluations += 1;
        ctx.nontrivial(&format!("family {} up to {}", fam, last_ok));
        ctx.count_n(&format!("family/{}/largest_ok", fam), last_ok as u64);
    }
}

// ------------------------------------------------------------------------------------------------
// C07: node-set invariants and set algebra (no reference evaluator needed)

/// document-order key of a locator produced by `subject`: child indexes, an attribute sorts after its
/// element and before the element's children
fn lockey(l: &str) -> Option<Vec<i64>> {
    if l.contains('?') || l.contains('#') || l.contains("empty-text") || l.starts_with('!') { return None; }
    let (path, attr) = match l.find('@') { Some(p) => (&l[..p], true), None => (l, false) };
    let mut v: Vec<i64> = vec![];
    for part in path.split('/') { if part.is_empty() { continue; } v.push(part.parse().ok()?); }
    if attr { v.push(-1); }
    Some(v)
}

/// Some(kind) if the node-set breaks the invariant
fn nodeset_invariant(v: &[String]) -> Option<(&'static str, String)> {
    let mut keys: Vec<(Vec<i64>, &String)> = vec![];
    for l in v { match lockey(l) { Some(k) => keys.push((k, l)), None => return None } }
    let mut seen = std::collections::HashSet::new();
    for l in v { if !seen.insert(l) { return Some(("dup", format!("{} occurs more than once in {}", l, v.join(" ")))); } }
    for w in keys.windows(2) {
        // attributes of one element may come in any relative order
        let both_attr_same_owner = w[0].0.last() == Some(&-1) && w[1].0.last() == Some(&-1) && w[0].0.len() == w[1].0.len() && w[0].0[..w[0].0.len() - 1] == w[1].0[..w[1].0.len() - 1];
        if both_attr_same_owner { continue; }
        if w[0].0 >= w[1].0 { return Some(("order", format!("{} is listed before {} in {}", w[0].1, w[1].1, v.join(" ")))); }
    }
    None
}

fn c07_gen(doc: &Doc) -> XGen { let mut g = c05_gen(doc); g.allow_pi_literal = true; g }

fn nodes_of(o: &Outcome) -> Option<&Vec<String>> { if let Outcome::Nodes(v) = o { Some(v) } else { None } }

pub fn c07(ctx: &mut Ctx) {
    let ndocs: u64 = if ctx.thorough { 1_000_000 } else { 60_000 };
    let per_doc = if ctx.thorough { 30 } else { 20 };
    for d in 0..ndocs {
        if !ctx.mine(d) { continue; }
        let mut r = ctx.rng(d);
        ctx.begin(d, "");
        let case = match make_case(&mut r, xdoc_cfg()) { Ok(c) => c, Err(e) => { ctx.inconclusive(&format!("document_not_usable:{}", crate::util::truncate(&e, 40))); continue; } };
        let g = c07_gen(&case.doc);
        let ev = |s: &str| xmlrs_eval(&case.subj, s, &case.ns, None, STEP_BUDGET).0;
        for k in 0..per_doc {
            let sp = |r: &mut Rng| Spelling { abbrev: r.chance(1, 2), spaces: false, full_parens: false, redundant: false, outer_ws: false };
            let ea = g.nodeset(&mut r, 0, true); let eb = g.nodeset(&mut r, 0, true); let ec = g.nodeset(&mut r, 1, true);
            let (a, b, c) = (xp::render(&ea, sp(&mut r), None), xp::render(&eb, sp(&mut r), None), xp::render(&ec, sp(&mut r), None));
            ctx.evaluations += 1;
            if d % 97 == 0 && k == 0 { ctx.sample(&format!("A = {}  B = {}  C = {}  ON  {}", a, b, c, crate::util::truncate(&case.text, 300))); }
            let oa = ev(&a); let ob = ev(&b); let oc = ev(&c);
            // (a) invariant on every node-set seen
            let mut results: Vec<(String, Outcome)> = vec![(a.clone(), oa.clone()), (b.clone(), ob.clone()), (c.clone(), oc.clone())];
            let u_ab = format!("({}) | ({})", a, b); let u_ba = format!("({}) | ({})", b, a); let u_aa = format!("({}) | ({})", a, a);
            let u_ab_c = format!("(({}) | ({})) | ({})", a, b, c); let u_a_bc = format!("({}) | (({}) | ({}))", a, b, c);
            for s in [&u_ab, &u_ba, &u_aa, &u_ab_c, &u_a_bc] { results.push((s.clone(), ev(s))); }
            let mut any_set = false;
            for (s, o) in &results {
                if let Outcome::Nodes(v) = o {
                    any_set = true; ctx.count("nodesets-checked"); if v.len() > 1 { ctx.count("nodesets-with-2+-nodes"); }
                    if v.iter().any(|l| lockey(l).is_none()) { ctx.count("skipped/nodes-without-identity"); continue; }
                    if let Some((kind, detail)) = nodeset_invariant(v) {
                        let feats = { let mut f = xp::feature_set(&ea); f.extend(xp::feature_set(&eb)); f.retain(|x| x.starts_with("axis:") || x == "filter" || x == "dslash" || x == "op:|"); f.sort(); f.dedup(); f.join("+") };
                        let _ = feats;
                        ctx.violation(d, &format!("C07/{}", kind), &format!("{} :: expr {} :: doc {}", detail, s, case.text), &[("doc", &case.text), ("expr", s)]);
                    }
                }
                if let Outcome::Panic(p) = o { ctx.count("totality-failure(see C06)"); let _ = p; }
            }
            if any_set { ctx.nontrivial(&format!("{}|{}|{}|{}", a, b, c, case.text)); }
            // (b) algebra
            let get = |s: &str| -> Option<Outcome> { results.iter().find(|x| x.0 == s).map(|x| x.1.clone()) };
            if let (Some(va), Some(vb)) = (nodes_of(&oa), nodes_of(&ob)) {
                let law = |ctx: &mut Ctx, name: &str, l: &Outcome, rr: &Outcome, detail: String| {
                    ctx.count(&format!("law/{}", name));
                    if let (Outcome::Nodes(x), Outcome::Nodes(y)) = (l, rr) { if x != y { ctx.violation(d, &format!("C07/algebra/{}", name), &format!("{} :: left {} right {} :: doc {}", detail, l.brief(), rr.brief(), case.text), &[("doc", &case.text), ("expr", &detail)]); } }
                    else if std::mem::discriminant(l) != std::mem::discriminant(rr) { ctx.violation(d, &format!("C07/algebra/{}/kind", name), &format!("{} :: left {} right {} :: doc {}", detail, l.brief(), rr.brief(), case.text), &[("doc", &case.text), ("expr", &detail)]); }
                };
                let (o_ab, o_ba, o_aa) = (get(&u_ab).unwrap(), get(&u_ba).unwrap(), get(&u_aa).unwrap());
                law(ctx, "commutative", &o_ab, &o_ba, format!("{}  vs  {}", u_ab, u_ba));
                law(ctx, "idempotent", &o_aa, &oa, format!("{}  vs  {}", u_aa, a));
                if nodes_of(&oc).is_some() { law(ctx, "associative", &get(&u_ab_c).unwrap(), &get(&u_a_bc).unwrap(), format!("{}  vs  {}", u_ab_c, u_a_bc)); }
                // count(A|B) <= count(A) + count(B), and >= max
                ctx.count("law/count-bound");
                if let Outcome::Num(n) = ev(&format!("count({})", u_ab)) {
                    let has_ident = va.iter().chain(vb.iter()).all(|l| lockey(l).is_some());
                    if n > (va.len() + vb.len()) as f64 || (has_ident && n < va.len().max(vb.len()) as f64) { ctx.violation(d, "C07/algebra/count-bound", &format!("count({}) = {} with count(A) = {} count(B) = {} :: doc {}", u_ab, n, va.len(), vb.len(), case.text), &[("doc", &case.text), ("expr", &u_ab)]); }
                    if let Some(Outcome::Nodes(u)) = get(&u_ab).as_ref() { if n != u.len() as f64 { ctx.violation(d, "C07/algebra/count-vs-length", &format!("count({}) = {} but the node-set has {} nodes :: doc {}", u_ab, n, u.len(), case.text), &[("doc", &case.text), ("expr", &u_ab)]); } }
                }
                // positional filters on a parenthesised node-set count in document order
                if va.iter().all(|l| lockey(l).is_some()) {
                    let mut sorted: Vec<&String> = va.iter().collect(); sorted.sort_by_key(|l| lockey(l).unwrap()); sorted.dedup();
                    let attr_mix = va.iter().filter(|l| l.contains('@')).count() > 1; // order among attributes of one element is open
                    if !attr_mix {
                        for (pred, want) in [("1".to_string(), sorted.first().cloned()), ("2".to_string(), sorted.get(1).cloned()), ("last()".to_string(), sorted.last().cloned()), ("position()=1".to_string(), sorted.first().cloned()), (format!("{}", sorted.len() + 1), None)] {
                            let s = format!("({})[{}]", a, pred);
                            ctx.count("law/positional-filter");
                            if let Outcome::Nodes(got) = ev(&s) {
                                let want_v: Vec<String> = want.into_iter().cloned().collect();
                                if got != want_v { ctx.violation(d, "C07/algebra/positional-filter", &format!("{} gave {} but the node-set in document order is {} :: doc {}", s, got.join(" "), sorted.iter().map(|x| x.as_str()).collect::<Vec<_>>().join(" "), case.text), &[("doc", &case.text), ("expr", &s)]); }
                            }
                        }
                    }
                }
            }
        }
    }
}
// ------------------------------------------------------------------------------------------------
// C08: equivalent spellings; precedence and associativity; node-type tests where a step may begin

/// [n] <-> [position() = n] on every numeric predicate (a model transformation that XPath defines as equivalent)
fn swap_numeric_preds(e: &Expr) -> Expr {
    let sw = |p: &Expr| -> Expr { match p { Expr::Num(n) => Expr::Bin(Op::Eq, Box::new(Expr::Func("position".into(), vec![])), Box::new(Expr::Num(n.clone()))), o => swap_numeric_preds(o) } };
    match e {
        Expr::Bin(op, a, b) => Expr::Bin(*op, Box::new(swap_numeric_preds(a)), Box::new(swap_numeric_preds(b))),
        Expr::Neg(a) => Expr::Neg(Box::new(swap_numeric_preds(a))),
        Expr::Func(n, args) => Expr::Func(n.clone(), args.iter().map(swap_numeric_preds).collect()),
        Expr::Path(start, steps) => {
            let start = match start { Start::Filter(fe, preds) => Start::Filter(Box::new(swap_numeric_preds(fe)), preds.iter().map(sw).collect()), o => o.clone() };
            Expr::Path(start, steps.iter().map(|s| Step { axis: s.axis, test: s.test.clone(), preds: s.preds.iter().map(sw).collect(), dslash: s.dslash }).collect())
        }
        o => o.clone(),
    }
}

fn has_numeric_pred(e: &Expr) -> bool { xp::feature_set(e).iter().any(|f| f == "pred-number") }

const PREC_OPERANDS: &[&str] = &["7", "3", "2", "0", "true()", "false()", "'3'", "''", "//a", "//b", "count(//a)", "-1"];
const PREC_NODESETS: &[&str] = &["//a", "//b", "//nomatch", "/r/a[1]"];

fn lit_expr(s: &str) -> Expr {
    match s {
        "true()" => Expr::Func("true".into(), vec![]), "false()" => Expr::Func("false".into(), vec![]),
        "'3'" => Expr::Lit("3".into()), "''" => Expr::Lit(String::new()), "-1" => Expr::Neg(Box::new(Expr::Num("1".into()))),
        "count(//a)" => Expr::Func("count".into(), vec![lit_expr("//a")]),
        "/r/a[1]" => Expr::Path(Start::Root, vec![Step { axis: Axis::Child, test: Test::Name(None, "r".into()), preds: vec![], dslash: false }, Step { axis: Axis::Child, test: Test::Name(None, "a".into()), preds: vec![Expr::Num("1".into())], dslash: false }]),
        x if x.starts_with("//") => Expr::Path(Start::Root, vec![Step { axis: Axis::Child, test: Test::Name(None, x[2..].to_string()), preds: vec![], dslash: true }]),
        n => Expr::Num(n.to_string()),
    }
}

const PREC_DOC: &str = "<r><a>3</a><b>7</b><a>2</a><c/></r>";

fn prec_doc_model() -> Doc {
    use model::{Elem, Node};
    let leaf = |n: &str, t: &str| Node::Elem(Elem { local: n.into(), children: if t.is_empty() { vec![] } else { vec![Node::Text(t.into())] }, ..Default::default() });
    Doc { decl: None, pre: vec![], doctype: None, mid: vec![], root: Elem { local: "r".into(), children: vec![leaf("a", "3"), leaf("b", "7"), leaf("a", "2"), leaf("c", "")], ..Default::default() }, post: vec![] }
}

const NT_TEMPLATES: &[&str] = &["NT", "NT/..", "r[NT]", "r/a[NT]", "count(NT)", "count(r/NT)", "NT | r", "r | NT", "(NT)", "- NT", "NT = 'x'", "'x' = NT", "r/a[NT = 'x']", "r/a[not(NT)]", "r/a[NT and @i]", "r/a[@i or NT]", "concat(NT, 'x')", "//NT", "r//NT", "1 + NT", "NT[1]", "r/a[NT[1]]", "r/a[ NT ]", "string(r/a/NT)", "r/a/NT", "r/a/NT[last()]", "count(r/a[NT] | r/NT)", "boolean(NT)", "r/a[count(NT) = 1]", "NT div 2", "r/NT/following-sibling::NT"];
const NT_NAMES: &[&str] = &["text()", "comment()", "node()", "processing-instruction()", "processing-instruction('p')"];
const NT_DOC: &str = "<?p top?><!--top--><r>x<a i='1'>x<!--c--><?p d?></a><a>y</a><!--c2--><?q e?>z</r>";

pub fn c08(ctx: &mut Ctx) {
    // (a) random ASTs in several spellings
    let ndocs: u64 = if ctx.thorough { 1_500_000 } else { 100_000 };
    let per_doc = if ctx.thorough { 30 } else { 20 };
    for d in 0..ndocs {
        if !ctx.mine(d) { continue; }
        let mut r = ctx.rng(d);
        ctx.begin(d, "");
        let case = match make_case(&mut r, xdoc_cfg()) { Ok(c) => c, Err(e) => { ctx.inconclusive(&format!("document_not_usable:{}", crate::util::truncate(&e, 40))); continue; } };
        let g = c07_gen(&case.doc);
        for k in 0..per_doc {
            let e = g.top(&mut r);
            let canon = xp::render(&e, Spelling::canonical(), None);
            let base = xmlrs_eval(&case.subj, &canon, &case.ns, None, STEP_BUDGET).0;
            if matches!(base, Outcome::Panic(_) | Outcome::Steps) { ctx.count("totality-failure(see C06)"); continue; }
            ctx.evaluations += 1;
            ctx.nontrivial(&format!("{}|{}", canon, case.text));
            let mk = |abbrev, spaces, full_parens, redundant, outer_ws| Spelling { abbrev, spaces, full_parens, redundant, outer_ws };
            let mut variants: Vec<(&'static str, String)> = vec![
                ("abbreviated", xp::render(&e, mk(true, false, false, false, false), None)),
                ("white-space", xp::render(&e, mk(false, true, false, false, false), Some(&mut r))),
                ("full-parentheses", xp::render(&e, mk(false, false, true, false, false), None)),
                ("redundant-parentheses", xp::render(&e, mk(false, false, false, true, false), Some(&mut r))),
                ("outer-white-space", xp::render(&e, mk(false, false, false, false, true), None)),
                ("combined", xp::render(&e, mk(true, true, r.chance(1, 2), true, r.chance(1, 2)), Some(&mut r))),
            ];
            if has_numeric_pred(&e) { variants.push(("numeric-predicate", xp::render(&swap_numeric_preds(&e), Spelling::canonical(), None))); }
            if d % 97 == 0 && k == 0 { ctx.sample(&format!("{}  ==  {}", canon, variants.iter().map(|v| v.1.clone()).collect::<Vec<_>>().join("  ==  "))); }
            for (name, s) in &variants {
                if s == &canon { ctx.count(&format!("spelling/{}/identical-text", name)); continue; }
                ctx.count(&format!("spelling/{}", name));
                let o = xmlrs_eval(&case.subj, s, &case.ns, None, STEP_BUDGET).0;
                if let Some(kind) = diff(&base, &o) {
                    if kind == "panic" || kind == "steps" { ctx.count("totality-failure(see C06)"); continue; }
                    // attribute order is open: a name()/string() of the first attribute may legitimately not differ here (same engine), so no leniency needed
                    ctx.violation(d, &format!("C08/spelling/{}/{}", name, kind), &format!("{} gives {} but {} gives {} :: doc {}", canon, base.brief(), s, o.brief(), case.text), &[("doc", &case.text), ("expr", s), ("canonical", &canon)]);
                }
            }
        }
    }
    // (b) exhaustive precedence / associativity table over operator pairs
    let pdoc = prec_doc_model();
    let ptree = RTree::build(&pdoc);
    let psubj = subject(PREC_DOC, true);
    let ops: Vec<Op> = xp::OPS.to_vec();
    let mut idx = 6_000_000u64;
    for &op1 in &ops { for &op2 in &ops {
        idx += 1;
        if !ctx.mine(idx) { continue; }
        let psubj = match &psubj { Ok(s) => s, Err(_) => { ctx.inconclusive("precedence_document_not_usable"); continue; } };
        ctx.begin(idx, "precedence");
        let mut r = ctx.rng(idx);
        let reps = if ctx.thorough { 40 } else { 12 };
        for _ in 0..reps {
            let pick = |r: &mut Rng, set_needed: bool| -> &'static str { if set_needed { r.pick_s(PREC_NODESETS) } else { r.pick_s(PREC_OPERANDS) } };
            let a = pick(&mut r, op1 == Op::Union); let b = pick(&mut r, op1 == Op::Union || op2 == Op::Union); let c = pick(&mut r, op2 == Op::Union);
            // unary minus in front of the first operand half of the time (binds tighter than everything but union)
            let neg = r.chance(1, 4);
            let flat = format!("{}{} {} {} {} {}", if neg { "- " } else { "" }, a, op1.sym(), b, op2.sym(), c);
            let ea = if neg { Expr::Neg(Box::new(lit_expr(a))) } else { lit_expr(a) };
            let ast = if op2.prec() > op1.prec() { Expr::Bin(op1, Box::new(ea), Box::new(Expr::Bin(op2, Box::new(lit_expr(b)), Box::new(lit_expr(c))))) } else { Expr::Bin(op2, Box::new(Expr::Bin(op1, Box::new(ea), Box::new(lit_expr(b)))), Box::new(lit_expr(c))) };
            // with a union next to the negated operand the minus applies to the union
            let ast = if neg && op1 == Op::Union { if op2 == Op::Union { Expr::Neg(Box::new(Expr::Bin(Op::Union, Box::new(Expr::Bin(Op::Union, Box::new(lit_expr(a)), Box::new(lit_expr(b)))), Box::new(lit_expr(c))))) } else { Expr::Bin(op2, Box::new(Expr::Neg(Box::new(Expr::Bin(Op::Union, Box::new(lit_expr(a)), Box::new(lit_expr(b)))))), Box::new(lit_expr(c))) } } else { ast };
            let paren = xp::render(&ast, Spelling { abbrev: true, spaces: false, full_parens: true, redundant: false, outer_ws: false }, None);
            ctx.evaluations += 1; ctx.count("precedence-cases"); ctx.nontrivial(&flat);
            let of = xmlrs_eval(psubj, &flat, &[], None, STEP_BUDGET).0;
            let op_ = xmlrs_eval(psubj, &paren, &[], None, STEP_BUDGET).0;
            let exp = ref_eval(&ptree, &ast, &[], None);
            let bad = diff(&op_, &of).or_else(|| diff(&exp, &of));
            if let Some(kind) = bad {
                // a recorded finding (e.g. '-0') must reproduce exactly
                let got_dev = masks_by_popcount().into_iter().find(|m| diff(&ref_eval_dev(&ptree, &ast, &[], None, xp::Dev::from_mask(*m)).0, &of).is_none() && diff(&op_, &of).is_none());
                if let Some(m) = got_dev { ctx.count(&format!("explained-by-recorded-C09-finding/{}", xp::Dev::names(m))); continue; }
                let l = lib_eval(PREC_DOC, &flat, &[]);
                if let Some(l) = &l { if diff(&exp, l).is_some() { ctx.inconclusive("oracle_disagreement"); if ctx.notes.len() < 10 { ctx.notes.push(format!("precedence: O2 {} O3 {} for {}", exp.brief(), l.brief(), flat)); } continue; } }
                ctx.violation(idx, &format!("C08/precedence/{}/{}", op1.sym(), op2.sym()), &format!("{} gives {}; grammar grouping {} gives {}; reference {} ({})", flat, of.brief(), paren, op_.brief(), exp.brief(), kind), &[("expr", &flat), ("grouped", &paren), ("doc", PREC_DOC)]);
            }
        }
    } }
    // (c) node-type tests wherever a step may begin: NT must behave as child::NT
    let nsubj = subject(NT_DOC, true);
    for (ti, tpl) in NT_TEMPLATES.iter().enumerate() {
        let idx = 7_000_000 + ti as u64;
        if !ctx.mine(idx) { continue; }
        let nsubj = match &nsubj { Ok(s) => s, Err(_) => { ctx.inconclusive("nodetype_document_not_usable"); continue; } };
        ctx.begin(idx, "node-type-test");
        for nt in NT_NAMES {
            let short = tpl.replace("NT", nt);
            let long = tpl.replace("::NT", "::\u{1}").replace("NT", &format!("child::{}", nt)).replace('\u{1}', nt);
            ctx.evaluations += 1; ctx.count("node-type-cases"); ctx.nontrivial(&short);
            let os = xmlrs_eval(nsubj, &short, &[], None, STEP_BUDGET).0;
            let ol = xmlrs_eval(nsubj, &long, &[], None, STEP_BUDGET).0;
            let lib = lib_eval(NT_DOC, &short, &[]);
            let mut bad = diff(&ol, &os);
            if bad.is_none() { if let Some(l) = &lib { bad = diff(l, &os); } }
            if let Some(kind) = bad {
                // explained by the recorded '-0' finding? (only a string "-0" vs "0")
                if let (Some(Outcome::Str(a)), Outcome::Str(b)) = (&lib, &os) { if a.replace("-0", "0") == b.replace("-0", "0") && diff(&ol, &os).is_none() { ctx.count("explained-by-recorded-C09-finding/neg-zero-string"); continue; } }
                ctx.violation(idx, &format!("C08/node-type-test/{}", kind), &format!("{} gives {}; {} gives {}; libxml2 {}", short, os.brief(), long, ol.brief(), lib.map(|l| l.brief()).unwrap_or_default()), &[("expr", &short), ("doc", NT_DOC)]);
            }
        }
    }
}
// ------------------------------------------------------------------------------------------------
// C09: scalar semantics of the core library and the operators over a value pool

#[derive(Clone)]
struct SVal { expr: Expr, class: &'static str }

fn s_lit(s: &str, class: &'static str) -> SVal { SVal { expr: Expr::Lit(s.to_string()), class } }
fn s_num(n: &str, class: &'static str) -> SVal { SVal { expr: Expr::Num(n.to_string()), class } }
fn s_div(a: &str, b: &str, neg: bool, class: &'static str) -> SVal { let e = Expr::Bin(Op::Div, Box::new(Expr::Num(a.into())), Box::new(Expr::Num(b.into()))); SVal { expr: if neg { Expr::Neg(Box::new(e)) } else { e }, class } }
fn s_neg(n: &str, class: &'static str) -> SVal { SVal { expr: Expr::Neg(Box::new(Expr::Num(n.into()))), class } }

fn pool_strings() -> Vec<SVal> {
    vec![
        s_lit("", "empty"), s_lit(" ", "ws"), s_lit(" \t\n", "ws"), s_lit("a", "ascii"), s_lit("abc", "ascii"), s_lit("abcabc", "ascii"), s_lit("b", "ascii"), s_lit("ABC", "ascii"), s_lit("a b  c", "ascii-ws"), s_lit("  a  ", "ascii-ws"),
        s_lit("\u{e9}", "nonascii"), s_lit("h\u{e9}llo", "nonascii"), s_lit("\u{1d4b3}y", "astral"), s_lit("e\u{301}x", "combining"), s_lit("\u{a0}1\u{a0}", "nbsp"), s_lit("\u{2003}a\u{2003}b", "unicode-space"),
        s_lit("12", "numeric"), s_lit(" 12 ", "numeric-padded"), s_lit("\t1\n", "numeric-padded"), s_lit("-3.5", "numeric"), s_lit(".5", "numeric"), s_lit("5.", "numeric"), s_lit("-.5", "numeric"), s_lit("01", "numeric"), s_lit("1.0", "numeric"), s_lit("-0", "numeric"), s_lit("0", "numeric"),
        s_lit("+1", "numeric-like"), s_lit("1e3", "numeric-like"), s_lit("1E3", "numeric-like"), s_lit("0x10", "numeric-like"), s_lit("--1", "numeric-like"), s_lit("- 1", "numeric-like"), s_lit("1 2", "numeric-like"), s_lit("1,5", "numeric-like"), s_lit("1.2.3", "numeric-like"), s_lit(".", "numeric-like"), s_lit("-", "numeric-like"),
        s_lit("NaN", "word"), s_lit("Infinity", "word"), s_lit("-Infinity", "word"), s_lit("inf", "word"), s_lit("infinity", "word"), s_lit("nan", "word"), s_lit("true", "word"), s_lit("false", "word"), s_lit("\u{661}", "numeric-like"),
    ]
}
fn pool_numbers() -> Vec<SVal> {
    vec![
        s_num("0", "zero"), s_neg("0", "negzero"), s_num("1", "int"), s_neg("1", "int"), s_num("2", "int"), s_num("3", "int"), s_num("10", "int"), s_neg("7", "int"),
        s_num("0.5", "half"), s_neg("0.5", "half"), s_num("1.5", "half"), s_num("2.5", "half"), s_neg("1.5", "half"), s_neg("2.5", "half"), s_num("0.1", "frac"), s_num("3.7", "frac"), s_neg("3.2", "frac"), s_num("0.49999999999999994", "frac"),
        s_div("0", "0", false, "nan"), s_div("1", "0", false, "inf"), s_div("1", "0", true, "inf"),
        s_num("1000000000000000000000", "huge"), s_num("9007199254740993", "huge"), s_num("4294967296", "huge"), s_num("10000000000000000000000000000000000000000", "huge"), s_num("0.0000001", "tiny"), s_num("0.000000000000000000001", "tiny"), s_num("4503599627370497.5", "huge"),
    ]
}
fn pool_bools() -> Vec<SVal> { vec![SVal { expr: Expr::Func("true".into(), vec![]), class: "bool" }, SVal { expr: Expr::Func("false".into(), vec![]), class: "bool" }] }

fn c09_case() -> Option<XCase> {
    use model::{Elem, Node};
    let doc = Doc { decl: None, pre: vec![], doctype: None, mid: vec![], root: Elem { local: "r".into(), attrs: vec![model::Attr { prefix: Some("xml".into()), local: "lang".into(), value: vec![model::APiece::Text("en-US".into())] }], children: vec![Node::Text(" 12 ".into())], ..Default::default() }, post: vec![] };
    let text = "<r xml:lang=\"en-US\"> 12 </r>".to_string();
    let tree = RTree::build(&doc);
    let subj = subject(&text, true).ok()?;
    Some(XCase { alts: alt_trees(&doc, &tree), doc, text, tree, subj, ns: vec![] })
}

fn c09_one(ctx: &mut Ctx, idx: u64, case: &XCase, what: &str, classes: &str, e: &Expr) {
    let estr = xp::render(e, Spelling::canonical(), None);
    ctx.evaluations += 1;
    ctx.count(&format!("what/{}", what));
    ctx.nontrivial(&estr);
    match judge(case, e, &estr, &case.subj) {
        Judgement::Agree => ctx.count("agree"),
        Judgement::Deviation { mask, .. } => ctx.violation(idx, &format!("C09/deviation/{}", xp::Dev::names(mask)), &estr, &[("expr", &estr)]),
        Judgement::Violation { kind, detail } => {
            let kind = if kind == "panic" { "panic" } else { kind };
            ctx.violation(idx, &format!("C09/scalar/{}/{}/{}", what, classes, kind), &format!("{} :: {}", estr, detail), &[("expr", &estr), ("doc", &case.text)])
        }
        Judgement::Inconclusive(why) => { ctx.inconclusive("oracle_disagreement"); if ctx.notes.len() < 12 { ctx.notes.push(format!("{} :: {}", why, estr)); } }
    }
}

pub fn c09(ctx: &mut Ctx) {
    let case = match c09_case() { Some(c) => c, None => { ctx.inconclusive("document_not_usable"); return; } };
    let strs = pool_strings(); let nums = pool_numbers(); let bools = pool_bools();
    let mut mixed: Vec<SVal> = vec![]; mixed.extend(strs.iter().cloned()); mixed.extend(nums.iter().cloned()); mixed.extend(bools.iter().cloned());
    ctx.sample(&format!("value pool: {} strings, {} numbers, 2 booleans; e.g. {}", strs.len(), nums.len(), mixed.iter().step_by(7).map(|v| xp::render(&v.expr, Spelling::canonical(), None)).collect::<Vec<_>>().join("  ")));
    let mut idx = 0u64;
    let f = |name: &str, args: Vec<&SVal>| -> (Expr, String) { (Expr::Func(name.to_string(), args.iter().map(|a| a.expr.clone()).collect()), args.iter().map(|a| a.class).collect::<Vec<_>>().join(",")) };
    // arity 0 / 1: every function on every pool value (exhaustive)
    for name in ["string", "number", "boolean", "not", "string-length", "normalize-space", "floor", "ceiling", "round", "lang"] {
        for v in &mixed { idx += 1; if !ctx.mine(idx) { continue; } ctx.begin(idx, ""); let (e, c) = f(name, vec![v]); c09_one(ctx, idx, &case, name, &c, &e); }
    }
    for name in ["string", "number", "string-length", "normalize-space", "true", "false"] { idx += 1; if ctx.mine(idx) { ctx.begin(idx, ""); c09_one(ctx, idx, &case, name, "context", &Expr::Func(name.to_string(), vec![])); } }
    // arity 2 string functions: strings x strings exhaustive, plus every mixed value in either position against a small string set
    for name in ["concat", "starts-with", "contains", "substring-before", "substring-after"] {
        for a in &strs { for b in &strs { idx += 1; if !ctx.mine(idx) { continue; } ctx.begin(idx, ""); let (e, c) = f(name, vec![a, b]); c09_one(ctx, idx, &case, name, &c, &e); } }
        for a in nums.iter().chain(bools.iter()) { for b in strs.iter().step_by(5) { for swap in [false, true] { idx += 1; if !ctx.mine(idx) { continue; } ctx.begin(idx, ""); let (e, c) = if swap { f(name, vec![b, a]) } else { f(name, vec![a, b]) }; c09_one(ctx, idx, &case, name, &c, &e); } } }
    }
    // substring(s, n) exhaustive; substring(s, n, m) exhaustive over a reduced string set (thorough: all strings)
    let sub_strs: Vec<&SVal> = strs.iter().filter(|s| matches!(s.class, "empty" | "ascii" | "nonascii" | "astral" | "combining")).collect();
    for s in &strs { for n in &mixed { idx += 1; if !ctx.mine(idx) { continue; } ctx.begin(idx, ""); let (e, c) = f("substring", vec![s, n]); c09_one(ctx, idx, &case, "substring", &c, &e); } }
    let s3: Vec<&SVal> = if ctx.thorough { strs.iter().collect() } else { sub_strs.clone() };
    for s in &s3 { for n in &nums { for m in &nums { idx += 1; if !ctx.mine(idx) { continue; } ctx.begin(idx, ""); let (e, c) = f("substring", vec![s, n, m]); c09_one(ctx, idx, &case, "substring", &c, &e); } } }
    // translate: reduced sets exhaustive
    let tr: Vec<&SVal> = strs.iter().filter(|s| matches!(s.class, "empty" | "ascii" | "nonascii" | "astral" | "combining" | "numeric")).collect();
    for a in &tr { for b in &tr { for c3 in tr.iter().step_by(if ctx.thorough { 1 } else { 3 }) { idx += 1; if !ctx.mine(idx) { continue; } ctx.begin(idx, ""); let (e, c) = f("translate", vec![a, b, c3]); c09_one(ctx, idx, &case, "translate", &c, &e); } } }
    for a in &sub_strs { for b in &sub_strs { for c3 in &sub_strs { idx += 1; if !ctx.mine(idx) { continue; } ctx.begin(idx, ""); let (e, c) = f("concat", vec![a, b, c3]); c09_one(ctx, idx, &case, "concat", &c, &e); } } }
    // binary operators over the mixed pool (exhaustive) and unary minus
    for op in xp::OPS.iter().filter(|o| **o != Op::Union) {
        for a in &mixed { for b in &mixed {
            idx += 1; if !ctx.mine(idx) { continue; } ctx.begin(idx, "");
            let e = Expr::Bin(*op, Box::new(a.expr.clone()), Box::new(b.expr.clone()));
            c09_one(ctx, idx, &case, &format!("op {}", op.sym()), &format!("{},{}", a.class, b.class), &e);
            // the result as a string as well (number -> string conversion of every computed value)
            if matches!(op, Op::Add | Op::Sub | Op::Mul | Op::Div | Op::Mod) && a.class != "bool" && b.class != "bool" && (idx % 3 == 0 || ctx.thorough) {
                let es = Expr::Func("string".into(), vec![e]);
                c09_one(ctx, idx, &case, &format!("string(op {})", op.sym()), &format!("{},{}", a.class, b.class), &es);
            }
        } }
    }
    for a in &mixed { idx += 1; if !ctx.mine(idx) { continue; } ctx.begin(idx, ""); let e = Expr::Neg(Box::new(a.expr.clone())); c09_one(ctx, idx, &case, "op neg", a.class, &e); let es = Expr::Func("string".into(), vec![Expr::Neg(Box::new(a.expr.clone()))]); c09_one(ctx, idx, &case, "string(op neg)", a.class, &es); }
    // arity errors: every function outside its arity range must be an error, never a panic
    for (name, lo, hi, _) in xp::FUNCS.iter() {
        for n in 0..=4usize { if n >= *lo && n <= *hi && *name != "concat" { continue; } if *name == "concat" && n >= 2 { continue; }
            idx += 1; if !ctx.mine(idx) { continue; } ctx.begin(idx, "");
            let e = Expr::Func(name.to_string(), (0..n).map(|_| Expr::Lit("a".into())).collect());
            c09_one(ctx, idx, &case, &format!("arity {}", name), &n.to_string(), &e);
        }
    }
}
// ------------------------------------------------------------------------------------------------
// C10: namespaces

fn rename_elem(e: &model::Elem, map: &dyn Fn(&str) -> String) -> model::Elem {
    let rp = |p: &Option<String>| p.as_ref().map(|p| if p == "xml" { p.clone() } else { map(p) });
    model::Elem {
        prefix: rp(&e.prefix), local: e.local.clone(),
        nsdecls: e.nsdecls.iter().map(|(p, u)| (rp(p), u.clone())).collect(),
        attrs: e.attrs.iter().map(|a| model::Attr { prefix: rp(&a.prefix), local: a.local.clone(), value: a.value.clone() }).collect(),
        children: e.children.iter().map(|c| match c { model::Node::Elem(x) => model::Node::Elem(rename_elem(x, map)), o => o.clone() }).collect(),
    }
}

fn rename_expr(e: &Expr, map: &dyn Fn(&str) -> String) -> Expr {
    let rt = |t: &Test| match t { Test::Name(Some(p), l) => Test::Name(Some(map(p)), l.clone()), Test::NsAny(p) => Test::NsAny(map(p)), o => o.clone() };
    match e {
        Expr::Bin(op, a, b) => Expr::Bin(*op, Box::new(rename_expr(a, map)), Box::new(rename_expr(b, map))),
        Expr::Neg(a) => Expr::Neg(Box::new(rename_expr(a, map))),
        Expr::Func(n, args) => Expr::Func(n.clone(), args.iter().map(|a| rename_expr(a, map)).collect()),
        Expr::Path(start, steps) => {
            let start = match start { Start::Filter(fe, preds) => Start::Filter(Box::new(rename_expr(fe, map)), preds.iter().map(|p| rename_expr(p, map)).collect()), o => o.clone() };
            Expr::Path(start, steps.iter().map(|s| Step { axis: s.axis, test: rt(&s.test), preds: s.preds.iter().map(|p| rename_expr(p, map)).collect(), dslash: s.dslash }).collect())
        }
        o => o.clone(),
    }
}

/// the same expression for an engine without a caller default namespace: unprefixed name tests on axes whose principal
/// node type is element get the given prefix (to be bound to the default namespace's URI)
pub fn with_default_prefix(e: &Expr, prefix: &str) -> Expr {
    match e {
        Expr::Bin(op, a, b) => Expr::Bin(*op, Box::new(with_default_prefix(a, prefix)), Box::new(with_default_prefix(b, prefix))),
        Expr::Neg(a) => Expr::Neg(Box::new(with_default_prefix(a, prefix))),
        Expr::Func(n, args) => Expr::Func(n.clone(), args.iter().map(|a| with_default_prefix(a, prefix)).collect()),
        Expr::Path(start, steps) => {
            let start = match start { Start::Filter(fe, preds) => Start::Filter(Box::new(with_default_prefix(fe, prefix)), preds.iter().map(|p| with_default_prefix(p, prefix)).collect()), o => o.clone() };
            Expr::Path(start, steps.iter().map(|s| Step { axis: s.axis, test: match (&s.test, s.axis) { (Test::Name(None, l), a) if a != Axis::Attribute && a != Axis::Namespace => Test::Name(Some(prefix.to_string()), l.clone()), (t, _) => t.clone() }, preds: s.preds.iter().map(|p| with_default_prefix(p, prefix)).collect(), dslash: s.dslash }).collect())
        }
        o => o.clone(),
    }
}

/// verdict on an evaluation under a caller default namespace (xml-rs: Context::add_ns(None, uri); xq/xe: --setns xmlns=uri).
/// It applies to element name tests only, so the expected value is that of the expression with those tests prefixed.
pub fn judge_default_ns(case: &XCase, e: &Expr, estr: &str, subj: &Subject, ns: &[(String, String)], dflt: &str) -> Judgement {
    let e2 = with_default_prefix(e, "dfl0");
    let mut ns2 = ns.to_vec(); ns2.retain(|x| x.0 != "dfl0"); ns2.push(("dfl0".to_string(), dflt.to_string()));
    let s2 = xp::render(&e2, Spelling::abbreviated(), None);
    let exp = ref_eval(&case.tree, &e2, &ns2, None);
    let (got, _) = xmlrs_eval(subj, estr, ns, Some(dflt), STEP_BUDGET);
    judge_outcomes(case, &e2, &s2, &ns2, &exp, &got)
}

/// do the results of an expression depend on prefix *strings* (name() of prefixed nodes, namespace axis names)?
fn mentions_prefix_strings(e: &Expr) -> bool { let f = xp::feature_set(e); f.iter().any(|x| x == "fn:name" || x == "axis:namespace") }

/// edit a live document (move a subtree under other declarations, add / change / remove declarations) and compare the
/// expanded names and name tests it reports with those of a fresh parse of its serialization
fn c10_edits(ctx: &mut Ctx, d: u64, r: &mut Rng, case: &XCase) {
    use crate::dompool::{Op, Outcome as DOut, Pool, K};
    let live = match crate::props::domp::live_doc(&case.text) { Ok(l) => l, Err(_) => return };
    let mut pool = Pool::new(vec![live.dom.clone()]);
    // element lines, attribute lines without their value, in-scope namespace lines: the namespace-related part of the observation
    let only_names = |d: String| -> String { d.lines().filter_map(|l| match l.chars().next() { Some('E') | Some('I') => Some(l.to_string()), Some('A') => Some(l.splitn(6, ' ').take(5).collect::<Vec<_>>().join(" ")), _ => None }).collect::<Vec<_>>().join("\n") };
    let names = |doc: &xml_dom::XmlDocument| -> Result<String, String> { match guarded(|| crate::obs::dump_tree(doc, model::DumpOpt { merged: false, ..OPT_NS })) { Caught::Ok(r) => r.map(&only_names), Caught::Panic { file, msg } => Err(format!("PANIC {}/{}", file, msg)), Caught::Budget(_) => Err("steps".into()) } };
    // resolve every name once and run a query, so that whatever the library caches is warm
    let _ = names(&live.dom);
    let _ = xmlrs_eval(&subject_of(live.dom.clone()), "//*", &[], None, STEP_BUDGET);
    let _ = names(&live.dom);
    let elems: Vec<usize> = (0..pool.h.len()).filter(|&i| pool.h[i].kind == K::Element).collect();
    if elems.is_empty() { return; }
    let steps = r.range(1, 3);
    let mut log: Vec<String> = vec![];
    for _ in 0..steps {
        let e = *r.pick(&elems);
        let (kind, op) = match r.below(5) {
            0 | 1 => { let c = *r.pick(&elems); ("move-subtree", Op::AppendChild { p: e, c }) }
            2 => ("declare-prefix", Op::SetAttribute { e, name: format!("xmlns:{}", r.pick_s(&["p", "q", "r", "n1"])), value: r.pick_s(model::URIS).to_string() }),
            3 => ("declare-default", Op::SetAttribute { e, name: "xmlns".into(), value: if r.chance(1, 3) { String::new() } else { r.pick_s(model::URIS).to_string() } }),
            _ => ("remove-declaration", Op::RemoveAttribute { e, name: r.pick_s(&["p", "q", "r", "xmlns"]).to_string() }),
        };
        let desc = pool.describe_op(&op);
        ctx.evaluations += 1;
        match pool.apply(&op) { DOut::Ok(_) => {} DOut::Err(_) => { ctx.count("edit/refused"); continue; } DOut::Panic(_) => { ctx.count("panic(see C13)"); return; } }
        log.push(desc.clone());
        ctx.count(&format!("edit/{}", kind));
        // names first (before anything asks for document order), then queries
        let live_names = names(&live.dom);
        let ser = live.dom.to_string();
        let fresh = match crate::props::domp::live_doc(&ser) { Ok(f) => f, Err(_) => { ctx.inconclusive("edited_document_not_reparsable"); return; } };
        let fresh_names = names(&fresh.dom);
        if live_names != fresh_names {
            let detail = match (&live_names, &fresh_names) { (Ok(a), Ok(b)) => crate::util::first_diff(b, a), (a, b) => format!("live {:?} vs re-parsed {:?}", a.as_ref().map(|_| "ok"), b.as_ref().map(|_| "ok")) };
            ctx.violation(d, &format!("C10/edit/{}/names", kind), &format!("after {:?} the live document reports other expanded names / in-scope namespaces than a fresh parse of its serialization: {} :: serialization {} :: doc {}", log, detail, ser, case.text), &[("doc", &case.text), ("history", &log.join("\n"))]);
            return;
        }
        let bind: Vec<(String, String)> = model::URIS.iter().enumerate().map(|(i, u)| (format!("c{}", i), u.to_string())).collect();
        // queries see the merged-text view (adjacent text pieces coalesce on a re-parse, as in C14)
        live.set_merged(true); fresh.set_merged(true);
        let (ls, fs) = (subject_of(live.dom.clone()), subject_of(fresh.dom.clone()));
        for q in ["//*", "//c0:*", "//c1:*", "//c2:*", "//c3:*", "//@c0:*", "//@c1:*", "//@*", "//c0:a | //c1:b | //c2:c", "count(//*[namespace-uri() = ''])", "//*[name() != local-name()]"] {
            let (a, _) = xmlrs_eval(&ls, q, &bind, None, STEP_BUDGET);
            let (b, _) = xmlrs_eval(&fs, q, &bind, None, STEP_BUDGET);
            ctx.count("edit/requery");
            if matches!(a, Outcome::Panic(_) | Outcome::Steps) { break; }
            if let Some(k) = diff(&b, &a) { live.set_merged(false); ctx.violation(d, &format!("C10/edit/{}/nametest/{}", kind, k), &format!("{} gives {} on the edited document but {} on a fresh parse of {} :: history {:?} :: doc {}", q, a.brief(), b.brief(), ser, log, case.text), &[("doc", &case.text), ("history", &log.join("\n")), ("expr", q)]); return; }
        }
        live.set_merged(false);
    }
}

pub const OPT_NS: model::DumpOpt = model::DumpOpt { merged: true, ns: true, prolog: false, specified: false, reflevel: false };

pub fn c10(ctx: &mut Ctx) {
    let ndocs: u64 = if ctx.thorough { 1_500_000 } else { 100_000 };
    let per_doc = if ctx.thorough { 24 } else { 12 };
    for d in 0..ndocs {
        if !ctx.mine(d) { continue; }
        let mut r = ctx.rng(d);
        ctx.begin(d, "");
        let mut cfg = xdoc_cfg(); cfg.dtd = false; cfg.max_attrs = 3;
        let case = match make_case(&mut r, cfg) { Ok(c) => c, Err(e) => { ctx.inconclusive(&format!("document_not_usable:{}", crate::util::truncate(&e, 40))); continue; } };
        let feats = model::features(&case.doc);
        for f in &feats { if f.starts_with("ns") || f.contains("prefix") { ctx.count(&format!("doc/{}", f)); } }
        ctx.evaluations += 1;
        ctx.nontrivial(&case.text);
        if d % 211 == 0 { ctx.sample(&case.text); }
        // (a) expanded names and in-scope namespaces of every element and attribute, through the DOM accessors
        let exp = model::expected_dump(&case.doc, OPT_NS);
        match guarded(|| crate::obs::dump_xmlrs(&case.text, OPT_NS)) {
            Caught::Ok(Ok(o)) => { if o.dump != exp { let df = crate::util::first_diff(&exp, &o.dump); let kind = if df.contains("\"I ") { "in-scope" } else if df.contains("\"A ") { "attribute" } else if df.contains("\"E ") { "element" } else { "other" }; ctx.violation(d, &format!("C10/ns/{}", kind), &format!("{} :: doc {}", df, case.text), &[("doc", &case.text)]); } else { ctx.count("dom-expanded-names-agree"); } }
            Caught::Ok(Err(e)) => ctx.violation(d, "C10/ns/error", &format!("{} :: doc {}", e, case.text), &[("doc", &case.text)]),
            Caught::Panic { file, msg } => ctx.violation(d, &format!("C10/panic/{}/{}", file, norm_msg(&msg)), &case.text, &[("doc", &case.text)]),
            Caught::Budget(_) => {}
        }
        // (b) namespace-uri / local-name / name of the n-th element and of its attributes, through XPath
        let elems: Vec<usize> = (0..case.tree.nodes.len()).filter(|&i| case.tree.nodes[i].kind == RKind::Elem).collect();
        for (n, &ei) in elems.iter().enumerate().take(12) {
            let nd = &case.tree.nodes[ei];
            let qn = match &nd.prefix { Some(p) => format!("{}:{}", p, nd.local), None => nd.local.clone() };
            for (fname, want) in [("namespace-uri", nd.uri.clone().unwrap_or_default()), ("local-name", nd.local.clone()), ("name", qn.clone())] {
                let s = format!("{}((//*)[{}])", fname, n + 1);
                ctx.count("xpath-name-functions");
                let (o, _) = xmlrs_eval(&case.subj, &s, &[], None, STEP_BUDGET);
                if o != Outcome::Str(want.clone()) { ctx.violation(d, &format!("C10/xpath/{}/element", fname), &format!("{} gave {} expected {:?} :: doc {}", s, o.brief(), want, case.text), &[("doc", &case.text), ("expr", &s)]); }
            }
            for &ai in &nd.attrs {
                let a = &case.tree.nodes[ai];
                let aq = match &a.prefix { Some(p) => format!("{}:{}", p, a.local), None => a.local.clone() };
                if aq.contains('\'') { continue; }
                for (fname, want) in [("namespace-uri", a.uri.clone().unwrap_or_default()), ("local-name", a.local.clone())] {
                    let s = format!("{}((//*)[{}]/@*[name()='{}'])", fname, n + 1, aq);
                    ctx.count("xpath-name-functions");
                    let (o, _) = xmlrs_eval(&case.subj, &s, &[], None, STEP_BUDGET);
                    if o != Outcome::Str(want.clone()) { ctx.violation(d, &format!("C10/xpath/{}/attribute", fname), &format!("{} gave {} expected {:?} :: doc {}", s, o.brief(), want, case.text), &[("doc", &case.text), ("expr", &s)]); }
                }
            }
        }
        // (c) name tests under caller bindings: absolute value against the references, and invariance under renaming
        let uris: Vec<String> = { let mut v: Vec<String> = vec![]; for n in &case.tree.nodes { if let Some(u) = &n.uri { if u != model::XML_NS && !v.contains(u) { v.push(u.clone()); } } } v.push("urn:unused".into()); v };
        let caller: Vec<(String, String)> = uris.iter().enumerate().map(|(i, u)| (format!("c{}", i), u.clone())).collect();
        let mut g = c05_gen(&case.doc);
        g.prefixes = caller.iter().map(|c| c.0.clone()).collect();
        g.funcs.retain(|f| !matches!(*f, "lang"));
        // a bijective renaming of the document's prefixes (and one of the caller's)
        let doc_map = |p: &str| -> String { match p { "p" => "q".into(), "q" => "zz".into(), "r" => "p".into(), o => format!("{}x", o) } };
        let renamed_doc = Doc { root: rename_elem(&case.doc.root, &doc_map), ..case.doc.clone() };
        // both renderings keep the attribute order of the model (the order of attribute nodes is implementation
        // dependent, so an expression may legitimately depend on it)
        let renamed_text = model::render(&renamed_doc, &mut r, Style { minimal: true });
        let renamed_subj = subject(&renamed_text, true);
        let plain_text = model::render(&case.doc, &mut r, Style { minimal: true });
        let plain_subj = subject(&plain_text, true);
        let call_map = |p: &str| -> String { format!("k{}", p) };
        let caller2: Vec<(String, String)> = caller.iter().rev().map(|(p, u)| (call_map(p), u.clone())).collect();
        for k in 0..per_doc {
            let e = if k % 3 == 0 {
                // a bare name test on an axis that selects elements or attributes
                let axis = *r.pick(&[Axis::Child, Axis::Descendant, Axis::Attribute, Axis::DescendantOrSelf]);
                let pool: Vec<String> = if axis == Axis::Attribute { g.attr_names.clone() } else { g.names.clone() };
                let test = match r.below(4) { 0 => Test::Any, 1 => Test::NsAny(r.pick(&g.prefixes).clone()), 2 => Test::Name(Some(r.pick(&g.prefixes).clone()), r.pick(&pool).clone()), _ => Test::Name(None, r.pick(&pool).clone()) };
                let mut steps = vec![Step { axis: Axis::DescendantOrSelf, test: Test::Node, preds: vec![], dslash: false }];
                steps.push(Step { axis, test, preds: vec![], dslash: false });
                Expr::Path(Start::Root, steps)
            } else { g.top(&mut r) };
            let estr = xp::render(&e, Spelling { abbrev: r.chance(1, 2), spaces: false, full_parens: false, redundant: false, outer_ws: false }, None);
            ctx.evaluations += 1;
            ctx.nontrivial(&format!("{}|{}", estr, case.text));
            let (got, _) = xmlrs_eval(&case.subj, &estr, &caller, None, STEP_BUDGET);
            if matches!(got, Outcome::Panic(_) | Outcome::Steps) { ctx.count("totality-failure(see C06)"); continue; }
            let exp = ref_eval(&case.tree, &e, &caller, None);
            match judge_outcomes(&case, &e, &estr, &caller, &exp, &got) {
                Judgement::Agree => ctx.count("name-tests-agree"),
                // explained exactly by a recorded XPath finding that is not a namespace matter (C05's): not a C10 event
                Judgement::Deviation { mask, .. } => ctx.count(&format!("explained-by-recorded-C05-finding/{}", xp::Dev::names(mask))),
                Judgement::Violation { kind, detail } => ctx.violation(d, &format!("C10/nametest/{}", kind), &format!("{} :: expr {} :: bindings {:?} :: doc {}", detail, estr, caller, case.text), &[("doc", &case.text), ("expr", &estr)]),
                Judgement::Inconclusive(why) => { ctx.inconclusive("oracle_disagreement"); if ctx.notes.len() < 10 { ctx.notes.push(format!("{} :: {} :: {}", why, estr, case.text)); } }
            }
            if mentions_prefix_strings(&e) { ctx.count("rename/skipped-prefix-string-sensitive"); continue; }
            // renaming the caller's prefixes (expression + bindings)
            let e2 = rename_expr(&e, &call_map);
            let s2 = xp::render(&e2, Spelling::abbreviated(), None);
            let (got2, _) = xmlrs_eval(&case.subj, &s2, &caller2, None, STEP_BUDGET);
            ctx.count("rename/caller");
            if let Some(kind) = diff(&got, &got2) { ctx.violation(d, &format!("C10/rename/caller/{}", kind), &format!("{} with {:?} gives {}; {} with {:?} gives {} :: doc {}", estr, caller, got.brief(), s2, caller2, got2.brief(), case.text), &[("doc", &case.text), ("expr", &estr)]); }
            // renaming the document's prefixes
            if let (Ok(rs), Ok(ps)) = (&renamed_subj, &plain_subj) {
                let (got3, _) = xmlrs_eval(rs, &estr, &caller, None, STEP_BUDGET);
                let (got, _) = xmlrs_eval(ps, &estr, &caller, None, STEP_BUDGET);
                ctx.count("rename/document");
                // attribute locators carry the (renamed) prefix: compare them by local name
                let strip = |o: &Outcome| -> Outcome { match o { Outcome::Nodes(v) => Outcome::Nodes(v.iter().map(|l| match l.find('@') { Some(p) => match l[p..].find(':') { Some(c) => format!("{}@{}", &l[..p], &l[p + c + 1..]), None => l.clone() }, None => l.clone() }).collect()), o => o.clone() } };
                if let Some(kind) = diff(&strip(&got), &strip(&got3)) { ctx.violation(d, &format!("C10/rename/document/{}", kind), &format!("{} gives {} on {} but {} on {}", estr, got.brief(), plain_text, got3.brief(), renamed_text), &[("doc", &plain_text), ("renamed", &renamed_text), ("expr", &estr)]); }
            } else { ctx.inconclusive("renamed_document_not_usable"); }
            // the caller's default namespace (an xml-rs extension): only renaming invariance is demanded
            if k % 4 == 1 {
                let dflt = r.pick(&uris).clone();
                let (g1, _) = xmlrs_eval(&case.subj, &estr, &caller, Some(&dflt), STEP_BUDGET);
                let (g2, _) = xmlrs_eval(&case.subj, &s2, &caller2, Some(&dflt), STEP_BUDGET);
                ctx.count("rename/caller-with-default-binding");
                if let Some(kind) = diff(&g1, &g2) { ctx.violation(d, &format!("C10/rename/caller-default/{}", kind), &format!("{} gives {}; {} gives {} (default {}) :: doc {}", estr, g1.brief(), s2, g2.brief(), dflt, case.text), &[("doc", &case.text), ("expr", &estr)]); }
                // ... a default binding that was added and taken away again leaves no trace: what counts is the set of bindings now
                {
                    let mut cx = XContext::default();
                    for (p, u) in &caller { cx.add_ns(Some(p.as_str()), u.as_str()); }
                    cx.add_ns(None, dflt.as_str()); cx.remove_ns(None);
                    if let Some((p0, u0)) = caller.first() { cx.remove_ns(Some(p0.as_str())); cx.add_ns(Some(p0.as_str()), u0.as_str()); }
                    let (g3, _) = xmlrs_eval_cx(&case.subj, &estr, &mut cx, STEP_BUDGET);
                    ctx.count("rename/caller-binding-history");
                    if let Some(kind) = diff(&got, &g3) { ctx.violation(d, &format!("C10/binding-history/{}", kind), &format!("{} gives {} with the bindings {:?}, but {} after a default namespace was added and removed again :: doc {}", estr, got.brief(), caller, g3.brief(), case.text), &[("doc", &case.text), ("expr", &estr)]); }
                }
                // ... and it stands for a prefix on element name tests, nothing else
                if !matches!(g1, Outcome::Panic(_) | Outcome::Steps) {
                    match judge_default_ns(&case, &e, &estr, &case.subj, &caller, &dflt) {
                        Judgement::Agree => ctx.count("default-namespace-agree"),
                        Judgement::Deviation { mask, .. } => ctx.count(&format!("explained-by-recorded-C05-finding/{}", xp::Dev::names(mask))),
                        Judgement::Violation { kind, detail } => ctx.violation(d, &format!("C10/default-namespace/{}", kind), &format!("{} :: expr {} :: default namespace {} bindings {:?} :: doc {}", detail, estr, dflt, caller, case.text), &[("doc", &case.text), ("expr", &estr), ("default", &dflt)]),
                        Judgement::Inconclusive(_) => ctx.inconclusive("oracle_disagreement"),
                    }
                }
            }
        }
        // (d) the same holds for a document that has been edited through the DOM: names are resolved in the tree as it is now
        c10_edits(ctx, d, &mut r, &case);
    }
}
// ------------------------------------------------------------------------------------------------
// C19: determinism and freedom from side effects

const FAILING: &[&str] = &["//*[nosuch()]", "//*[count(1)]", "//*[$v]", "//*[zz:a]", "//*['a' | *]", "//*[string-length(1,2)]", "//*[*[*[nosuch()] or nosuch()]]", "(//*)[nosuch()]", "(//node())[position() = nosuch()]", "//*[position() = 1][nosuch()]", "//*[1][count('x')]", "count(//*[nosuch()])", "//*[not(nosuch())]/..", "//*[last() = nosuch()]", "//@*[sum(1)]", "//*[id('x')]", "//node()[self::zz:*]", "(//*[1])[count(2)]", "//*[concat('a')]", "//*[true(1)]", "//*[", "//*[1", "((", "//*[)]", "1 +", "//*[1]/[2]", "@", "//*[substring()]", "//*[text()[nosuch()]]", "//text()[nosuch()]", "//*[@*[nosuch()]]", "//*[zz:f(.)]", "zz:f()", "//zz:*", "//@zz:a", "//*[zz:f(1) or nosuch()]", "//*[nosuch:f()]", "count(zz:f(1))", "//*[name(zz:a)]", "//@xml:nosuch[nosuch()]"];
const PROBES: &[&str] = &["position()", "last()", "position() + last()", "string(position())", "//*[position() = last()]", "count(//*)", "//*[1]", "(//*)[last()]", "//*[last()]", "/*[position()]", "//@xml:*", "//@xml:lang", "//*[@xml:lang]", "count(//@xml:*)", "//*[lang('en')]", "name(/*)", "//*[@xml:space]", "/*/*", "//*/@*", "count(//node())", "//*[name() = name(/*)]", "xml:*", "/*[xml:x]"];

fn order_snapshot(s: &Subject) -> Vec<(String, usize)> {
    // order keys of every mapped node, by locator
    fn walk(n: &xml_dom::XmlNode, s: &Subject, out: &mut Vec<(String, usize)>, budget: &mut usize) {
        if *budget == 0 { return; } *budget -= 1;
        out.push((locator_of(s, n), n.order()));
        if let Some(attrs) = n.attributes() { for a in attrs.iter() { let an = a.as_node(); out.push((locator_of(s, &an), an.order())); } }
        for c in n.child_nodes().iter() { walk(&c, s, out, budget); }
    }
    let mut out = vec![]; let mut b = 50_000usize;
    walk(&s.dom.as_node(), s, &mut out, &mut b);
    out
}

pub fn c19(ctx: &mut Ctx) {
    let ndocs: u64 = if ctx.thorough { 1_500_000 } else { 100_000 };
    for d in 0..ndocs {
        if !ctx.mine(d) { continue; }
        let mut r = ctx.rng(d);
        ctx.begin(d, "");
        let mut cfg = xdoc_cfg(); cfg.attlist_effective = r.chance(1, 4);
        let merged = r.chance(3, 4);
        let doc = { let mut g = Gen::new(&mut r, cfg); g.doc() };
        let text = model::render(&doc, &mut r, Style { minimal: false });
        // (1) parsing twice
        let p = guarded(|| -> Result<Option<(String, String)>, String> {
            let a = crate::obs::parse_dom(&text, merged)?; let b = crate::obs::parse_dom(&text, merged)?;
            if a.rest != b.rest { return Ok(Some(("rest".into(), format!("{} vs {}", a.rest, b.rest)))); }
            if a.doc != b.doc { return Ok(Some(("not-equal".into(), "PartialEq says two parses of one text differ".into()))); }
            let (sa, sb) = (a.doc.to_string(), b.doc.to_string());
            if sa != sb { return Ok(Some(("serialization".into(), format!("{:?} vs {:?}", sa, sb)))); }
            let (da, db) = (crate::obs::dump_tree(&a.doc, OPT_NS)?, crate::obs::dump_tree(&b.doc, OPT_NS)?);
            if da != db { return Ok(Some(("observation".into(), crate::util::first_diff(&da, &db)))); }
            Ok(None)
        });
        ctx.evaluations += 1;
        match p {
            Caught::Ok(Ok(None)) => ctx.count("parse-twice-equal"),
            Caught::Ok(Ok(Some((k, dt)))) => ctx.violation(d, &format!("C19/det/parse/{}", k), &format!("{} :: doc {}", dt, text), &[("doc", &text)]),
            Caught::Ok(Err(_)) => { ctx.inconclusive("document_not_usable"); continue; }
            _ => { ctx.count("totality-failure(see C03)"); continue; }
        }
        // (2) query sequences under one shared context
        let subj = match subject(&text, merged) { Ok(s) => s, Err(_) => { ctx.inconclusive("document_not_usable"); continue; } };
        let mut ns: Vec<(String, String)> = vec![];
        fn walk(e: &model::Elem, ns: &mut Vec<(String, String)>) { for (p, u) in &e.nsdecls { if let Some(p) = p { if !u.is_empty() && !ns.iter().any(|x| &x.0 == p) { ns.push((p.clone(), u.clone())); } } } for c in &e.children { if let model::Node::Elem(x) = c { walk(x, ns); } } }
        walk(&doc.root, &mut ns);
        let s0 = subj.dom.to_string();
        let dump0 = crate::obs::dump_tree(&subj.dom, OPT_NS).unwrap_or_default();
        let ord0 = order_snapshot(&subj);
        let mut g = XGen::for_doc(&doc); g.allow_pi_literal = true; g.funcs.retain(|f| *f != "id");
        // caller bindings: all of the document's prefixes, or only some of them (so that "prefix not declared"
        // failures occur inside ordinary expressions too), with or without a default namespace
        if r.chance(1, 3) { let keep = r.below(ns.len() + 1); ns.truncate(keep); }
        let default_ns: Option<String> = match r.below(4) { 0 => Some(match ns.first() { Some(x) if r.chance(1, 2) => x.1.clone(), _ => r.pick_s(&["urn:a", "urn:none", "http://e/x"]).to_string() }), _ => None };
        let fresh_cx = |ns: &[(String, String)]| { let mut c = XContext::default(); for (p, u) in ns { c.add_ns(Some(p.as_str()), u.as_str()); } if let Some(d) = &default_ns { c.add_ns(None, d.as_str()); } c };
        ctx.count(if default_ns.is_some() { "context/default-namespace" } else { "context/no-default-namespace" });
        let mut shared = fresh_cx(&ns);
        // the caller may also have bound and unbound things on the way: what counts is the set of bindings now
        if r.chance(1, 3) {
            for _ in 0..r.range(1, 4) {
                match r.below(4) {
                    0 => { shared.add_ns(None, r.pick_s(&["urn:a", "urn:gone", "http://e/x"])); shared.remove_ns(None); if let Some(d) = &default_ns { shared.add_ns(None, d.as_str()); } }
                    1 => { shared.add_ns(Some("tmp0"), "urn:tmp"); shared.remove_ns(Some("tmp0")); }
                    2 => if let Some((p0, u0)) = ns.first() { shared.remove_ns(Some(p0.as_str())); shared.add_ns(Some(p0.as_str()), "urn:elsewhere"); shared.remove_ns(Some(p0.as_str())); shared.add_ns(Some(p0.as_str()), u0.as_str()); }
                    _ => if let Some(d) = &default_ns { shared.remove_ns(None); shared.add_ns(None, "urn:other-default"); shared.add_ns(None, d.as_str()); }
                }
            }
            ctx.count("context/with-binding-history");
        }
        let nq = r.range(2, if ctx.thorough { 30 } else { 20 });
        let mut seq: Vec<String> = vec![];
        for q in 0..nq {
            let estr = match r.below(10) {
                0 | 1 | 2 => { let f = r.pick_s(FAILING).to_string(); match r.below(3) { 0 => f, 1 => { let e = g.nodeset(&mut r, 1, true); format!("{}[{}]", xp::render(&e, Spelling::abbreviated(), None), f) } _ => format!("count({})", f) } }
                3 | 4 => r.pick_s(PROBES).to_string(),
                _ => { let e = g.top(&mut r); xp::render(&e, Spelling { abbrev: r.chance(1, 2), spaces: false, full_parens: false, redundant: false, outer_ws: false }, None) }
            };
            seq.push(estr.clone());
            ctx.evaluations += 1;
            let (o_shared, _) = xmlrs_eval_cx(&subj, &estr, &mut shared, STEP_BUDGET);
            if matches!(o_shared, Outcome::Panic(_) | Outcome::Steps) { ctx.count("totality-failure(see C06)"); break; }
            ctx.count(if matches!(o_shared, Outcome::Err(_)) { "query/error" } else { "query/value" });
            let (ds, dp) = shared.verif_depths();
            if ds != 0 || dp != 0 { ctx.violation(d, &format!("C19/ctx/leak/{}", if ds != 0 { "size" } else { "position" }), &format!("after {:?} the context stacks have depths size={} position={} :: sequence {:?} :: doc {}", estr, ds, dp, seq, text), &[("doc", &text), ("expr", &estr)]); shared = fresh_cx(&ns); }
            let (o_fresh, _) = xmlrs_eval(&subj, &estr, &ns, default_ns.as_deref(), STEP_BUDGET);
            if let Some(kind) = diff(&o_fresh, &o_shared) { ctx.violation(d, &format!("C19/ctx/answer-differs/{}", kind), &format!("query #{} {:?}: fresh context {} shared context {} :: sequence {:?} :: doc {}", q, estr, o_fresh.brief(), o_shared.brief(), seq, text), &[("doc", &text), ("expr", &estr), ("sequence", &seq.join("\n"))]); }
            let (o_again, _) = xmlrs_eval_cx(&subj, &estr, &mut shared, STEP_BUDGET);
            if let Some(kind) = diff(&o_shared, &o_again) { ctx.violation(d, &format!("C19/repeat/{}", kind), &format!("{:?} first {} second {} :: doc {}", estr, o_shared.brief(), o_again.brief(), text), &[("doc", &text), ("expr", &estr)]); }
            if subj.dom.to_string() != s0 { ctx.violation(d, "C19/sidefx/serialization", &format!("after {:?} the document prints differently :: doc {}", estr, text), &[("doc", &text), ("expr", &estr)]); break; }
        }
        ctx.nontrivial(&format!("{}|{}", seq.join(";"), text));
        if d % 101 == 0 { ctx.sample(&format!("{:?}  ON  {}", seq, crate::util::truncate(&text, 200))); }
        match crate::obs::dump_tree(&subj.dom, OPT_NS) { Ok(dm) => if dm != dump0 { ctx.violation(d, "C19/sidefx/observation", &format!("{} :: sequence {:?} :: doc {}", crate::util::first_diff(&dump0, &dm), seq, text), &[("doc", &text)]); }, Err(e) => ctx.violation(d, "C19/sidefx/observation-error", &e, &[("doc", &text)]) }
        let ord1 = order_snapshot(&subj);
        if ord1 != ord0 { let w = ord0.iter().zip(ord1.iter()).find(|(a, b)| a != b).map(|(a, b)| format!("{} had order {} now {} has {}", a.0, a.1, b.0, b.1)).unwrap_or_else(|| "length".into()); ctx.violation(d, "C19/sidefx/order-keys", &format!("{} :: sequence {:?} :: doc {}", w, seq, text), &[("doc", &text)]); }
        else { ctx.count("document-unchanged-after-sequence"); }
    }
}

pub fn witness(prop: &str, f: &[String], _ctx: &mut Ctx) -> Option<String> {
    // fields: kind, doc text, expression [, expected outcome brief]
    let kind = f.first()?.as_str();
    match (prop, kind) {
        (_, "differs-from-libxml2") => {
            let (text, expr) = (f.get(1)?, f.get(2)?);
            let subj = subject(text, true).ok()?;
            let (got, _) = xmlrs_eval(&subj, expr, &[], None, STEP_BUDGET);
            let l = lib_eval(text, expr, &[])?;
            diff(&l, &got).map(|k| format!("{}/{}", prop, k))
        }
        (_, "family") => {
            // a size-family member; a crash of this process is observed by the supervisor
            let (fam, n) = (f.get(1)?, f.get(2)?.parse::<usize>().ok()?);
            let (doc, expr) = xfamily_input(fam, n);
            let subj = subject(&doc, true).ok()?;
            c06_eval(&subj, count_dom_nodes(&subj), &expr, None).map(|(c, _)| format!("{}/{}", prop, c))
        }
        (_, "fails") => {
            let (text, expr) = (f.get(1)?, f.get(2)?);
            let subj = subject(text, true).ok()?;
            let (got, _) = xmlrs_eval(&subj, expr, &[], None, STEP_BUDGET);
            match got { Outcome::Panic(p) => Some(format!("{}/panic/{}", prop, p)), Outcome::Steps => Some(format!("{}/steps", prop)), _ => None }
        }
        _ => None,
    }
}

#[allow(dead_code)]
fn _unused(_: &Step, _: &Start, _: &Test, _: Op, _: RKind) {}

/// diagnostic aid: `xv probe <doc> <expr> [p=uri ...]`
pub fn probe(text: &str, expr: &str, nsargs: &[String]) {
    // "p=uri" binds a prefix, "=uri" sets the default namespace of the xml-rs context
    let all: Vec<(String, String)> = nsargs.iter().filter_map(|a| a.split_once('=').map(|(p, u)| (p.to_string(), u.to_string()))).collect();
    let default_ns: Option<String> = all.iter().find(|x| x.0.is_empty()).map(|x| x.1.clone());
    let ns: Vec<(String, String)> = all.into_iter().filter(|x| !x.0.is_empty()).collect();
    match subject(text, true) {
        Ok(s) => { let (o, steps) = xmlrs_eval(&s, expr, &ns, default_ns.as_deref(), STEP_BUDGET); println!("xml-rs merged: {}  [{} steps]", o.brief(), steps); }
        Err(e) => println!("xml-rs merged: document not usable: {}", e),
    }
    match subject(text, false) {
        Ok(s) => { let (o, steps) = xmlrs_eval(&s, expr, &ns, default_ns.as_deref(), STEP_BUDGET); println!("xml-rs raw   : {}  [{} steps]", o.brief(), steps); }
        Err(e) => println!("xml-rs raw   : document not usable: {}", e),
    }
    match lib_eval(text, expr, &ns) { Some(o) => println!("libxml2      : {}", o.brief()), None => println!("libxml2      : n/a") }
}
