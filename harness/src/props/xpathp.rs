use crate::Ctx;
pub fn c05(_: &mut Ctx) {} pub fn c06(_: &mut Ctx) {} pub fn c07(_: &mut Ctx) {} pub fn c08(_: &mut Ctx) {} pub fn c09(_: &mut Ctx) {} pub fn c10(_: &mut Ctx) {} pub fn c19(_: &mut Ctx) {}
pub fn witness(_: &str, _: &[String], _: &mut Ctx) -> Option<String> { None }
