//! XPath properties: C05 (values), C06 (totality), C07 (node-set invariants and algebra),
//! C08 (equivalent spellings, precedence), C09 (scalar library), C10 (namespaces), C19 (determinism).
use crate::model::{self, Doc, GenCfg, Gen, Style};
use crate::refxml;
use crate::rng::Rng;
use crate::xp::{self, Axis, Env, Expr, Op, RErr, RKind, RTree, Spelling, Start, Step, Test, XGen, RV};
use crate::{guarded, norm_msg, Caught, Ctx};
use std::collections::HashMap;
use xml_dom::{AsExpandedName, AsNode, Attr, Node as DomNode};
use xml_xpath::eval::model::{Context as XContext, Value};

// ------------------------------------------------------------------------------------------------
// outcomes in a comparable form

#[derive(Clone, Debug, PartialEq)]
pub enum Outcome { Nodes(Vec<String>), Bool(bool), Num(f64), Str(String), Err(String), Panic(String), Steps }

impl Outcome {
    pub fn brief(&self) -> String {
        match self {
            Outcome::Nodes(v) => format!("nodes[{}]{{{}}}", v.len(), crate::util::truncate(&v.join(" "), 200)),
            Outcome::Bool(b) => format!("bool {}", b), Outcome::Num(n) => format!("num {}", xp::num_to_str(*n)), Outcome::Str(s) => format!("str {:?}", crate::util::truncate(s, 120)),
            Outcome::Err(e) => format!("error {}", e), Outcome::Panic(p) => format!("PANIC {}", p), Outcome::Steps => "STEP BUDGET EXCEEDED".into(),
        }
    }
}

fn num_same(a: f64, b: f64) -> bool { (a.is_nan() && b.is_nan()) || a == b }

/// locators of namespace nodes are compared without their owner (namespace nodes have no usable identity in xml-rs)
fn canon_loc(l: &str) -> String { match l.find('#') { Some(p) => l[p..].to_string(), None => l.to_string() } }

/// within the attributes (and namespace nodes) of one element the order is implementation dependent
fn canon_seq(v: &[String]) -> Vec<String> {
    let mut out: Vec<String> = vec![];
    let mut i = 0;
    while i < v.len() {
        let owner = |s: &str| -> Option<String> { s.find('@').map(|p| s[..p].to_string()) };
        if let Some(o) = owner(&v[i]) {
            let mut j = i; let mut grp = vec![];
            while j < v.len() && owner(&v[j]).as_deref() == Some(o.as_str()) { grp.push(v[j].clone()); j += 1; }
            grp.sort(); out.extend(grp); i = j;
        } else if v[i].starts_with('#') {
            let mut j = i; let mut grp = vec![];
            while j < v.len() && v[j].starts_with('#') { grp.push(v[j].clone()); j += 1; }
            grp.sort(); out.extend(grp); i = j;
        } else { out.push(v[i].clone()); i += 1; }
    }
    out
}

/// None = equal; Some(kind) = how they differ
pub fn diff(expected: &Outcome, observed: &Outcome) -> Option<&'static str> {
    match (expected, observed) {
        (Outcome::Nodes(a), Outcome::Nodes(b)) => {
            let (a, b): (Vec<String>, Vec<String>) = (a.iter().map(|x| canon_loc(x)).collect(), b.iter().map(|x| canon_loc(x)).collect());
            let mut sb = b.clone(); sb.sort(); let before = sb.len(); sb.dedup();
            let mut sa = a.clone(); sa.sort(); sa.dedup();
            if sa != sb { return Some("nodeset-members"); }
            if before != sb.len() && a.len() == sa.len() { return Some("nodeset-dup"); }
            if canon_seq(&a) != canon_seq(&b) { return Some("nodeset-order"); }
            None
        }
        (Outcome::Bool(a), Outcome::Bool(b)) => if a == b { None } else { Some("bool") },
        (Outcome::Num(a), Outcome::Num(b)) => if num_same(*a, *b) { None } else { Some("num") },
        (Outcome::Str(a), Outcome::Str(b)) => if a == b { None } else { Some("str") },
        (Outcome::Err(_), Outcome::Err(_)) => None,
        (Outcome::Err(_), Outcome::Panic(_)) | (_, Outcome::Panic(_)) => Some("panic"),
        (_, Outcome::Steps) => Some("steps"),
        (Outcome::Err(_), _) => Some("value-where-error-expected"),
        (_, Outcome::Err(_)) => Some("error-where-value-expected"),
        _ => Some("value-kind"),
    }
}

// ------------------------------------------------------------------------------------------------
// xml-rs side

pub struct Subject { pub dom: xml_dom::XmlDocument, pub idmap: HashMap<usize, String> }

fn attr_qname(a: &xml_dom::XmlAttr) -> String {
    let n = a.as_node();
    match n.as_expanded_name() { Ok(Some((l, Some(p), _))) if p != "xmlns" => format!("{}:{}", p, l), _ => a.name() }
}

fn map_node(n: &xml_dom::XmlNode, loc: String, map: &mut HashMap<usize, String>, budget: &mut usize) {
    if *budget == 0 { return; }
    *budget -= 1;
    map.insert(n.id(), loc.clone());
    if let xml_dom::XmlNode::Element(e) = n {
        if let Some(attrs) = e.attributes() { for a in attrs.iter() { let id = a.as_node().id(); if id != 0 { map.insert(id, format!("{}@{}", loc, attr_qname(&a))); } } }
        let mut idx = 0;
        for c in e.child_nodes().iter() {
            // an empty merged text node does not exist in the XPath data model
            if let xml_dom::XmlNode::ExpandedText(t) = &c { if xml_dom::CharacterData::data(t).map(|d| d.is_empty()).unwrap_or(false) { map.insert(c.id(), format!("{}/empty-text", loc)); continue; } }
            map_node(&c, format!("{}/{}", loc, idx), map, budget);
            idx += 1;
        }
    }
}

pub fn subject(text: &str, merged: bool) -> Result<Subject, String> {
    let p = crate::obs::parse_dom(text, merged)?;
    if p.rest != 0 { return Err("rest".into()); }
    let mut map = HashMap::new();
    map.insert(p.doc.as_node().id(), "/".to_string());
    let mut idx = 0; let mut budget = 100_000usize;
    for c in p.doc.child_nodes().iter() {
        if let xml_dom::XmlNode::DocumentType(_) = c { map.insert(c.id(), "!doctype".into()); continue; }
        map_node(&c, format!("/{}", idx), &mut map, &mut budget);
        idx += 1;
    }
    Ok(Subject { dom: p.doc, idmap: map })
}

pub fn locator_of(s: &Subject, n: &xml_dom::XmlNode) -> String {
    match n {
        xml_dom::XmlNode::Namespace(ns) => format!("#{}={}", { let p = ns.node_name(); if p == "xmlns" { String::new() } else { p } }, ns.node_value().ok().flatten().unwrap_or_default()),
        xml_dom::XmlNode::Attribute(a) if n.id() == 0 => format!("?@{}", attr_qname(a)),
        _ => s.idmap.get(&n.id()).cloned().unwrap_or_else(|| format!("?unmapped-{:?}-{}", n.node_type(), n.id())),
    }
}

pub const STEP_BUDGET: u64 = 20_000_000;

pub fn value_outcome(s: &Subject, v: Result<Value, String>) -> Outcome {
    match v {
        Ok(Value::Node(ns)) => Outcome::Nodes(ns.iter().map(|n| locator_of(s, n)).collect()),
        Ok(Value::Boolean(b)) => Outcome::Bool(b),
        Ok(Value::Number(n)) => Outcome::Num(n),
        Ok(Value::Text(t)) => Outcome::Str(t),
        Err(e) => Outcome::Err(e),
    }
}

/// evaluate with xml-rs under a fresh context; returns the outcome and the logical steps used
pub fn xmlrs_eval(s: &Subject, expr: &str, ns: &[(String, String)], default_ns: Option<&str>, budget: u64) -> (Outcome, u64) {
    let mut cx = XContext::default();
    for (p, u) in ns { cx.add_ns(Some(p.as_str()), u.as_str()); }
    if let Some(d) = default_ns { cx.add_ns(None, d); }
    xmlrs_eval_cx(s, expr, &mut cx, budget)
}

pub fn xmlrs_eval_cx(s: &Subject, expr: &str, cx: &mut XContext, budget: u64) -> (Outcome, u64) {
    xml_nom::verif::reset();
    xml_nom::verif::set_budget(budget);
    let r = guarded(|| xml_xpath::query(s.dom.clone(), expr, cx).map_err(|e| match e { xml_xpath::error::Error::ExprRemain(r) => format!("syntax(remain {:?})", crate::util::truncate(r, 20)), xml_xpath::error::Error::ExprSyntax(_) => "syntax".to_string(), xml_xpath::error::Error::Eval(ev) => format!("eval({:?})", ev) }));
    let steps = xml_nom::verif::read();
    let o = match r {
        Caught::Ok(v) => value_outcome(s, v),
        Caught::Panic { file, msg } => Outcome::Panic(format!("{}/{}", file, norm_msg(&msg))),
        Caught::Budget(_) => Outcome::Steps,
    };
    (o, steps)
}

// ------------------------------------------------------------------------------------------------
// references

pub fn ref_outcome(tree: &RTree, v: Result<RV, RErr>) -> Outcome {
    match v {
        Ok(RV::Nodes(ns)) => Outcome::Nodes(ns.iter().map(|&n| tree.nodes[n].locator.clone()).collect()),
        Ok(RV::Bool(b)) => Outcome::Bool(b), Ok(RV::Num(n)) => Outcome::Num(n), Ok(RV::Str(s)) => Outcome::Str(s),
        Err(e) => Outcome::Err(format!("{:?}", e)),
    }
}

pub fn ref_eval(tree: &RTree, e: &Expr, ns: &[(String, String)], default_ns: Option<&str>) -> Outcome {
    let env = Env { tree, ns: ns.to_vec(), default_ns: default_ns.map(|s| s.to_string()) };
    ref_outcome(tree, env.eval(e, xp::Cx { node: 0, pos: 1, size: 1 }))
}

fn unesc(s: &str) -> String {
    let s = s.trim(); let s = s.strip_prefix('"').unwrap_or(s); let s = s.strip_suffix('"').unwrap_or(s);
    let mut o = String::new(); let mut it = s.chars();
    while let Some(c) = it.next() { if c == '\\' { match it.next() { Some('n') => o.push('\n'), Some('r') => o.push('\r'), Some('t') => o.push('\t'), Some('q') => o.push('"'), Some('\\') => o.push('\\'), _ => {} } } else { o.push(c); } }
    o
}

/// libxml2's outcome (O3); None when libxml2 cannot be asked (NUL in the expression, document not accepted)
pub fn lib_eval(text: &str, expr: &str, ns: &[(String, String)]) -> Option<Outcome> {
    let out = refxml::xpath(text, expr, ns)?;
    let mut lines = out.lines();
    let head = lines.next()?;
    if head == "NODOC" { return None; }
    if head == "ERR" || head == "OTHER" { return Some(Outcome::Err("libxml2".into())); }
    let (k, rest) = head.split_at(1);
    match k {
        "N" => Some(Outcome::Nodes(lines.map(|l| l.to_string()).collect())),
        "B" => Some(Outcome::Bool(rest.trim() == "true")),
        "F" => { let t = rest.trim(); Some(Outcome::Num(match t { "NaN" => f64::NAN, "Infinity" => f64::INFINITY, "-Infinity" => f64::NEG_INFINITY, _ => t.parse().unwrap_or(f64::NAN) })) }
        "S" => Some(Outcome::Str(unesc(rest))),
        _ => None,
    }
}

// ------------------------------------------------------------------------------------------------
// shared case construction

pub struct XCase { pub doc: Doc, pub text: String, pub tree: RTree, pub subj: Subject, pub ns: Vec<(String, String)> }

/// generator profile for XPath documents: everything XPath can see; see known_findings.json for the exclusions
pub fn xdoc_cfg() -> GenCfg {
    let mut c = GenCfg::xpath();
    c.attlist_effective = false; // defaulted attributes are synthesised on every access (no identity): own workload in C11
    c
}

pub fn make_case(r: &mut Rng, cfg: GenCfg) -> Result<XCase, String> {
    let doc = { let mut g = Gen::new(r, cfg); g.doc() };
    let text = model::render(&doc, r, Style { minimal: false });
    let tree = RTree::build(&doc);
    let subj = subject(&text, true)?;
    // caller bindings: the document's own prefixes bound to the same URIs where unambiguous, plus a renamed one
    let mut ns: Vec<(String, String)> = vec![];
    fn walk(e: &model::Elem, ns: &mut Vec<(String, String)>) { for (p, u) in &e.nsdecls { if let Some(p) = p { if !u.is_empty() && !ns.iter().any(|x| &x.0 == p) { ns.push((p.clone(), u.clone())); } } } for c in &e.children { if let model::Node::Elem(x) = c { walk(x, ns); } } }
    walk(&doc.root, &mut ns);
    Ok(XCase { doc, text, tree, subj, ns })
}

fn raw_equals_merged(doc: &Doc) -> bool {
    fn ok(e: &model::Elem) -> bool { e.children.iter().all(|c| match c { model::Node::Elem(x) => ok(x), model::Node::CData(_) | model::Node::CharRef(..) | model::Node::EntRef(_) => false, _ => true }) }
    ok(&doc.root)
}

/// the comparison of one (document, expression) pair. Returns (kind, detail) for a confirmed disagreement,
/// Err(reason) when the references disagree with each other (inconclusive).
pub fn judge(case: &XCase, e: &Expr, estr: &str, subj: &Subject) -> Result<Option<(&'static str, String)>, String> {
    let exp = ref_eval(&case.tree, e, &case.ns, None);
    let (got, _) = xmlrs_eval(subj, estr, &case.ns, None, STEP_BUDGET);
    match diff(&exp, &got) {
        None => Ok(None),
        Some(kind) => {
            // O3 must side with O2 (numbers -> strings are decided by O2 alone: libxml2 prints exponents)
            match lib_eval(&case.text, estr, &case.ns) {
                Some(l) => { if let Some(k2) = diff(&exp, &l) { let single = matches!((&exp, &l), (Outcome::Str(_), Outcome::Str(_))) && estr.contains("string") || estr.contains("concat"); if !single { return Err(format!("O2 {} vs O3 {} ({})", exp.brief(), l.brief(), k2)); } } }
                None => return Err("libxml2 unavailable for this case".into()),
            }
            Ok(Some((kind, format!("expected {} observed {}", exp.brief(), got.brief()))))
        }
    }
}

fn features_sig(e: &Expr) -> String { xp::feature_set(e).into_iter().filter(|f| !matches!(f.as_str(), "num" | "lit" | "abs")).collect::<Vec<_>>().join("+") }

// ------------------------------------------------------------------------------------------------
// C05

/// expression generator restricted to the zone in which no recorded finding is active
pub fn c05_gen(doc: &Doc) -> XGen {
    let mut g = XGen::for_doc(doc);
    g.axes.retain(|a| *a != Axis::Namespace); // namespace axis: own sub-workload (no node identity in xml-rs)
    g.funcs.retain(|f| *f != "id");
    g
}

pub fn c05(ctx: &mut Ctx) {
    let ndocs: u64 = if ctx.thorough { 40_000 } else { 1_600 };
    let per_doc = if ctx.thorough { 60 } else { 30 };
    for d in 0..ndocs {
        if !ctx.mine(d) { continue; }
        let mut r = ctx.rng(d);
        ctx.begin(d, "");
        let case = match make_case(&mut r, xdoc_cfg()) { Ok(c) => c, Err(e) => { ctx.inconclusive(&format!("document_not_usable:{}", crate::util::truncate(&e, 40))); continue; } };
        let raw = if raw_equals_merged(&case.doc) { subject(&case.text, false).ok() } else { None };
        let g = c05_gen(&case.doc);
        for k in 0..per_doc {
            let e = g.top(&mut r);
            let sp = Spelling { abbrev: r.chance(1, 2), spaces: r.chance(1, 3), full_parens: false, redundant: false, outer_ws: false };
            let estr = xp::render(&e, sp, Some(&mut r));
            ctx.evaluations += 1;
            for f in xp::feature_set(&e) { ctx.count(&format!("f/{}", f)); }
            if d % 97 == 0 && k == 0 { ctx.sample(&format!("{}  ON  {}", estr, case.text)); }
            for (view, subj) in [("merged", Some(&case.subj)), ("raw", raw.as_ref())] {
                let subj = match subj { Some(s) => s, None => continue };
                match judge(&case, &e, &estr, subj) {
                    Ok(None) => { ctx.count(&format!("agree/{}", view)); ctx.nontrivial(&format!("{}|{}", estr, case.text)); }
                    Ok(Some((kind, detail))) => {
                        if kind == "panic" || kind == "steps" { ctx.count("totality-failure(see C06)"); continue; }
                        // shrink the expression while the same kind of disagreement persists
                        let small = xp::shrink(&e, &mut |c: &Expr| { let s = xp::render(c, Spelling::abbreviated(), None); matches!(judge(&case, c, &s, subj), Ok(Some((k, _))) if k == kind) });
                        let sstr = xp::render(&small, Spelling::abbreviated(), None);
                        ctx.violation(d, &format!("C05/{}/{}", kind, features_sig(&small)), &format!("{} :: expr {} :: shrunk {} :: view {} :: doc {}", detail, estr, sstr, view, case.text), &[("doc", &case.text), ("expr", &estr), ("shrunk", &sstr)]);
                    }
                    Err(why) => { ctx.inconclusive("oracle_disagreement"); if ctx.notes.len() < 10 { ctx.notes.push(format!("{} :: {} :: {}", why, estr, case.text)); } }
                }
            }
        }
    }
}

pub fn c06(_: &mut Ctx) {}
pub fn c07(_: &mut Ctx) {}
pub fn c08(_: &mut Ctx) {}
pub fn c09(_: &mut Ctx) {}
pub fn c10(_: &mut Ctx) {}
pub fn c19(_: &mut Ctx) {}

pub fn witness(prop: &str, f: &[String], _ctx: &mut Ctx) -> Option<String> {
    // fields: kind, doc text, expression [, expected outcome brief]
    let kind = f.first()?.as_str();
    match (prop, kind) {
        (_, "differs-from-libxml2") => {
            let (text, expr) = (f.get(1)?, f.get(2)?);
            let subj = subject(text, true).ok()?;
            let (got, _) = xmlrs_eval(&subj, expr, &[], None, STEP_BUDGET);
            let l = lib_eval(text, expr, &[])?;
            diff(&l, &got).map(|k| format!("{}/{}", prop, k))
        }
        (_, "fails") => {
            let (text, expr) = (f.get(1)?, f.get(2)?);
            let subj = subject(text, true).ok()?;
            let (got, _) = xmlrs_eval(&subj, expr, &[], None, STEP_BUDGET);
            match got { Outcome::Panic(p) => Some(format!("{}/panic/{}", prop, p)), Outcome::Steps => Some(format!("{}/steps", prop)), _ => None }
        }
        _ => None,
    }
}

#[allow(dead_code)]
fn _unused(_: &Step, _: &Start, _: &Test, _: Op, _: RKind) {}
