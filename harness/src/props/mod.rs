use crate::Ctx;
pub mod c18;
pub mod parse;
pub mod xpathp;
pub mod domp;
pub mod cli;

pub fn run(prop: &str, ctx: &mut Ctx) -> bool {
    match prop {
        "C01" => parse::c01(ctx),
        "C02" => parse::c02(ctx),
        "C03" => parse::c03(ctx),
        "C04" => parse::c04(ctx),
        "C05" => xpathp::c05(ctx),
        "C06" => xpathp::c06(ctx),
        "C07" => xpathp::c07(ctx),
        "C08" => xpathp::c08(ctx),
        "C09" => xpathp::c09(ctx),
        "C10" => xpathp::c10(ctx),
        "C11" => parse::c11(ctx),
        "C12" => domp::c12(ctx),
        "C13" => domp::c13(ctx),
        "C14" => domp::c14(ctx),
        "C15" => domp::c15(ctx),
        "C16" => domp::c16(ctx),
        "C17" => cli::c17(ctx),
        "C18" => c18::run(ctx),
        "C19" => xpathp::c19(ctx),
        _ => return false,
    }
    true
}

/// replay the witness of a known finding; Some(signature) if it still fails
pub fn witness(prop: &str, fields: &[String], ctx: &mut Ctx) -> Option<String> {
    match prop {
        "C18" => c18::witness(fields),
        "C01" | "C02" | "C03" | "C04" | "C11" => parse::witness(prop, fields, ctx),
        "C05" | "C06" | "C07" | "C08" | "C09" | "C10" | "C19" => xpathp::witness(prop, fields, ctx),
        "C12" | "C13" | "C14" | "C15" | "C16" => domp::witness(prop, fields, ctx),
        "C17" => cli::witness(fields, ctx),
        _ => None,
    }
}
