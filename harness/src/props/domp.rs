use crate::Ctx;
pub fn c12(_: &mut Ctx) {} pub fn c13(_: &mut Ctx) {} pub fn c14(_: &mut Ctx) {} pub fn c15(_: &mut Ctx) {} pub fn c16(_: &mut Ctx) {}
pub fn witness(_: &str, _: &[String], _: &mut Ctx) -> Option<String> { None }
