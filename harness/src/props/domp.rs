//! DOM properties: C12 (tree invariants), C13 (DOM Level 1 effects, exceptions, atomicity),
//! C14 (document order under edits), C15 (successful edits stay serializable), C16 (character data).
use crate::dommodel::{Adopt, Model};
use crate::dompool::{kind_of, Op, Outcome, Pool, Ret, E, K};
use crate::model::{self, Gen, GenCfg, Style};
use crate::rng::Rng;
use crate::util::first_diff;
use crate::{guarded, Caught, Ctx};
use std::rc::Rc;
use xml_dom::{AsNode, Document, Node, NodeList, XmlDocument, XmlNode};

const SCRATCH_DOC: &str = "<s a='1'>t<!--c--><![CDATA[d]]><?p q?>&amp;</s>";
const FOREIGN_DOC: &str = "<f fa='1'><g>t</g><!--fc--><?fp d?></f>";
const GOOD_NAMES: &[&str] = &["a", "b", "c", "item", "x1", "_u", "n", "k"];
const BAD_NAMES: &[&str] = &["1a", "-a", "a b", "", "a<", ".x", "a&b", "a>", " a", "a\u{1}"];
const PLAIN_VALUES: &[&str] = &["", "v", "hello", "a b", "\u{e9}", "\u{1d4b3}y", "12", "x y z", "e\u{301}"];
const MARKUP_CHARS: &[&str] = &["a", "\u{e9}", "\u{1d4b3}", " ", "<", ">", "&", "'", "\"", "-", "]", "?", ";", "#", "=", "/", "!", "["];

pub const OPT_RAW_TREE: model::DumpOpt = model::DumpOpt { merged: false, ns: false, prolog: false, specified: false, reflevel: false };

/// a document whose info-level handle is kept so that the merged-text view can be switched on for observation
pub struct LiveDoc { pub dom: XmlDocument, pub info: xml_info::XmlNode<xml_info::XmlDocument> }

pub fn live_doc(text: &str) -> Result<LiveDoc, String> {
    let (rest, tree) = xml_parser::document(text).map_err(|e| format!("{:?}", e))?;
    if !rest.is_empty() { return Err("rest".into()); }
    let info = xml_info::XmlDocument::new(&tree).map_err(|e| format!("{:?}", e))?;
    Ok(LiveDoc { dom: XmlDocument::from(info.clone()), info })
}

impl LiveDoc {
    pub fn set_merged(&self, on: bool) { xml_info::HasContext::context_mut(&mut *self.info.borrow_mut()).set_text_expanded(on); }
}

/// generator profile of DOM documents: plain names, entities allowed, no namespaces, no attribute-list declarations
pub fn dom_cfg() -> GenCfg {
    let mut c = GenCfg::full();
    c.namespaces = false; c.attlists = false; c.nonascii = false; c.max_nodes = 24; c.max_depth = 3; c.literal_cr = false; c.empties = true;
    c
}

pub struct Hist { pub docs: Vec<LiveDoc>, pub pool: Pool, pub text: String, pub log: Vec<String> }

pub fn new_history(r: &mut Rng, cfg: GenCfg) -> Result<Hist, String> {
    let doc = { let mut g = Gen::new(r, cfg); g.doc() };
    let text = model::render(&doc, r, Style { minimal: false });
    let d0 = live_doc(&text)?;
    let d1 = live_doc(FOREIGN_DOC)?;
    let pool = Pool::new(vec![d0.dom.clone(), d1.dom.clone()]);
    Ok(Hist { docs: vec![d0, d1], pool, text, log: vec![] })
}

#[derive(Clone, Copy, PartialEq)]
pub enum Profile {
    /// everything, including calls DOM Level 1 leaves open
    Anything,
    /// only calls whose outcome DOM Level 1 fixes, weighted to error paths; markup-free strings
    Specified,
    /// structural edits biased to moving subtrees, re-inserting removed nodes, building subtrees before attaching them
    Moves,
    /// creation / insertion / data editing with markup-significant strings
    Markup,
    /// the same, and attribute names that are namespace declarations or prefixed (C15: the serialization must stay parsable)
    MarkupNs,
}

fn pick_kind(r: &mut Rng, pool: &Pool, kinds: &[K], doc0_bias: bool) -> Option<usize> {
    let v: Vec<usize> = (0..pool.h.len()).filter(|&i| kinds.contains(&pool.h[i].kind) && (!doc0_bias || pool.h[i].doc == 0 || i % 5 == 0)).collect();
    if v.is_empty() { None } else { Some(*r.pick(&v)) }
}

fn children_of(pool: &Pool, p: usize) -> Vec<usize> {
    let h = &pool.h[p];
    if !matches!(h.kind, K::Document | K::Element | K::Attr) { return vec![]; }
    h.node.child_nodes().iter().filter_map(|c| pool.find(&c, h.doc)).collect()
}

fn markup_string(r: &mut Rng) -> String { let n = r.below(5); let mut s = String::new(); for _ in 0..n { s.push_str(r.pick_s(MARKUP_CHARS)); } s }

fn offset_for(r: &mut Rng, len: usize) -> usize {
    match r.below(12) { 0 => 0, 1 => len, 2 => len + 1, 3 => len + 2, 4 => usize::MAX, 5 => usize::MAX - 1, 6 => len.saturating_sub(1), 7 => (isize::MAX) as usize, _ => if len == 0 { 0 } else { r.below(len + 1) } }
}

/// draw the next call of a history
pub fn gen_op(r: &mut Rng, pool: &Pool, prof: Profile) -> Op {
    let containers = [K::Element, K::Element, K::Element, K::Document, K::Attr];
    let any_child = [K::Element, K::Text, K::CData, K::Comment, K::PI, K::EntRef, K::Attr, K::Document, K::Doctype];
    let text_like = [K::Text, K::CData, K::Comment];
    let string = |r: &mut Rng| -> String { if matches!(prof, Profile::Markup | Profile::MarkupNs) { markup_string(r) } else { r.pick_s(PLAIN_VALUES).to_string() } };
    let name = |r: &mut Rng| -> String { if prof == Profile::MarkupNs && r.chance(1, 5) { r.pick_s(&["xmlns:p", "xmlns:q", "xmlns", "xmlns:a", "xml:lang", "xml:space"]).to_string() } else if r.chance(1, 5) { r.pick_s(BAD_NAMES).to_string() } else { r.pick_s(GOOD_NAMES).to_string() } };
    let w: [u32; 12] = match prof {
        //            append insert replace remove attrs attrnode create setvalue chardata split named docfrag
        Profile::Anything => [10, 8, 6, 8, 6, 5, 10, 4, 8, 3, 3, 0],
        Profile::Specified => [10, 8, 6, 8, 6, 6, 10, 4, 6, 3, 4, 0],
        Profile::Moves => [14, 12, 6, 10, 4, 4, 8, 1, 1, 2, 1, 0],
        Profile::Markup | Profile::MarkupNs => [8, 5, 2, 3, 6, 2, 12, 6, 14, 4, 1, 0],
    };
    loop {
        let k = r.weighted(&w);
        let op = match k {
            0 | 1 | 2 | 3 => {
                let p = match if r.chance(1, 10) { pick_kind(r, pool, &any_child, true) } else { pick_kind(r, pool, &containers, true) } { Some(p) => p, None => continue };
                let ch = children_of(pool, p);
                let c = if prof == Profile::Moves && r.chance(2, 3) { pick_kind(r, pool, &[K::Element, K::Element, K::Text, K::Comment, K::PI], true) } else { { let b = !r.chance(1, 6); pick_kind(r, pool, &any_child, b) } };
                let c = match c { Some(c) => c, None => continue };
                let some_child = |r: &mut Rng| -> Option<usize> { if !ch.is_empty() && r.chance(5, 6) { Some(*r.pick(&ch)) } else { pick_kind(r, pool, &any_child, true) } };
                match k {
                    0 => Op::AppendChild { p, c },
                    1 => Op::InsertBefore { p, c, r: if r.chance(1, 8) { None } else { some_child(r) } },
                    2 => match some_child(r) { Some(o) => Op::ReplaceChild { p, n: c, o }, None => continue },
                    _ => match some_child(r) { Some(o) => Op::RemoveChild { p, o }, None => continue },
                }
            }
            4 => { let e = match pick_kind(r, pool, &[K::Element], true) { Some(e) => e, None => continue }; if r.chance(2, 3) { Op::SetAttribute { e, name: name(r), value: string(r) } } else { Op::RemoveAttribute { e, name: r.pick_s(GOOD_NAMES).to_string() } } }
            5 => { let e = match pick_kind(r, pool, &[K::Element], true) { Some(e) => e, None => continue }; let a = match { let b = !r.chance(1, 6); pick_kind(r, pool, &[K::Attr], b) } { Some(a) => a, None => continue }; if r.chance(2, 3) { Op::SetAttributeNode { e, a } } else { Op::RemoveAttributeNode { e, a } } }
            6 => {
                let d = if r.chance(1, 7) { 1 } else { 0 };
                match r.below(8) {
                    0 | 1 => Op::CreateElement { d, name: name(r) }, 2 => Op::CreateText { d, data: string(r) }, 3 => Op::CreateComment { d, data: string(r) }, 4 => Op::CreateCData { d, data: string(r) },
                    5 => Op::CreatePI { d, target: if r.chance(1, 8) { r.pick_s(&["xml", "XML", "xMl"]).to_string() } else { name(r) }, data: string(r) }, 6 => Op::CreateAttribute { d, name: name(r) },
                    _ => Op::CreateEntRef { d, name: if r.chance(1, 2) { r.pick_s(&["lt", "amp", "e1", "e2", "nosuch"]).to_string() } else { name(r) } },
                }
            }
            7 => { let n = match pick_kind(r, pool, &[K::Attr, K::Attr, K::Text, K::Comment, K::CData, K::PI, K::Element, K::Document], true) { Some(n) => n, None => continue }; if matches!(pool.h[n].kind, K::Text | K::Comment | K::CData | K::PI) && r.chance(1, 2) { Op::SetData { n, data: string(r) } } else { Op::SetNodeValue { n, value: string(r) } } }
            8 => {
                let n = match pick_kind(r, pool, &text_like, true) { Some(n) => n, None => continue };
                let len = pool.data_of(n).map(|d| d.chars().count()).unwrap_or(0);
                match r.below(7) {
                    0 => Op::AppendData { n, data: string(r) }, 1 => Op::InsertData { n, off: offset_for(r, len), data: string(r) }, 2 => Op::DeleteData { n, off: offset_for(r, len), count: offset_for(r, len) },
                    3 => Op::ReplaceData { n, off: offset_for(r, len), count: offset_for(r, len), data: string(r) }, 4 => Op::SubstringData { n, off: offset_for(r, len), count: offset_for(r, len) }, 5 => Op::Length { n }, _ => Op::SetData { n, data: string(r) },
                }
            }
            9 => { let n = match pick_kind(r, pool, &[K::Text, K::Text, K::CData], true) { Some(n) => n, None => continue }; let len = pool.data_of(n).map(|d| d.chars().count()).unwrap_or(0); Op::SplitText { n, off: offset_for(r, len) } }
            10 => { let e = match pick_kind(r, pool, &[K::Element], true) { Some(e) => e, None => continue }; if r.chance(1, 2) { match { let b = !r.chance(1, 6); pick_kind(r, pool, &[K::Attr], b) } { Some(a) => Op::SetNamedItem { e, a }, None => continue } } else { Op::RemoveNamedItem { e, name: r.pick_s(GOOD_NAMES).to_string() } } }
            _ => continue,
        };
        return op;
    }
}

// ---------------------------------------------------------------------------------------------
// C12: the DOM stays a tree

fn same_node(a: &XmlNode, b: &XmlNode) -> bool { kind_of(a) == kind_of(b) && a.id() == b.id() && std::mem::discriminant(a) == std::mem::discriminant(b) }

/// Some((invariant, detail)) if the navigational views of container `n` disagree
pub fn tree_invariants(n: &XmlNode) -> Option<(&'static str, String)> {
    let list = n.child_nodes();
    let ch: Vec<XmlNode> = list.iter().collect();
    if list.length() != ch.len() { return Some(("length", format!("length() = {} but the list has {} items", list.length(), ch.len()))); }
    if n.has_child() != !ch.is_empty() { return Some(("has-child", format!("has_child() = {} with {} children", n.has_child(), ch.len()))); }
    match (n.first_child(), ch.first()) { (None, None) => {} (Some(a), Some(b)) if same_node(&a, b) => {} (a, b) => return Some(("first-child", format!("first_child {:?} vs child list head {:?}", a.map(|x| x.id()), b.map(|x| x.id())))) }
    match (n.last_child(), ch.last()) { (None, None) => {} (Some(a), Some(b)) if same_node(&a, b) => {} (a, b) => return Some(("last-child", format!("last_child {:?} vs child list tail {:?}", a.map(|x| x.id()), b.map(|x| x.id())))) }
    let mut seen = std::collections::HashSet::new();
    for (k, c) in ch.iter().enumerate() {
        if !seen.insert((kind_of(c) as u8 as usize, c.id())) { return Some(("duplicate-child", format!("child id {} occurs twice", c.id()))); }
        match list.item(k) { Some(x) if same_node(&x, c) => {} x => return Some(("item", format!("item({}) = {:?} vs iterated child {}", k, x.map(|x| x.id()), c.id()))) }
        match c.parent_node() { Some(p) if same_node(&p, n) => {} p => return Some(("parent", format!("child #{} (id {}, {:?}) reports parent {:?}, listed under id {} ({:?})", k, c.id(), kind_of(c), p.map(|x| (x.id(), kind_of(&x))), n.id(), kind_of(n)))) }
        let want_prev = if k == 0 { None } else { Some(&ch[k - 1]) };
        match (c.previous_sibling(), want_prev) { (None, None) => {} (Some(a), Some(b)) if same_node(&a, b) => {} (a, b) => return Some(("previous-sibling", format!("previous_sibling of child #{} (id {}) is {:?}, the list says {:?}", k, c.id(), a.map(|x| x.id()), b.map(|x| x.id())))) }
        let want_next = ch.get(k + 1);
        match (c.next_sibling(), want_next) { (None, None) => {} (Some(a), Some(b)) if same_node(&a, b) => {} (a, b) => return Some(("next-sibling", format!("next_sibling of child #{} (id {}) is {:?}, the list says {:?}", k, c.id(), a.map(|x| x.id()), b.map(|x| x.id())))) }
    }
    None
}

/// bounded walk: a node met twice or beneath itself
fn acyclic(root: &XmlNode) -> Option<String> {
    let mut seen = std::collections::HashSet::new();
    let mut stack = vec![(root.clone(), 0usize)];
    let mut budget = 20_000usize;
    while let Some((n, depth)) = stack.pop() {
        if budget == 0 || depth > 400 { return Some("walk budget exhausted: the structure below the node does not end".into()); }
        budget -= 1;
        if !seen.insert((kind_of(&n) as u8 as usize, n.id())) { return Some(format!("node id {} ({:?}) is reached twice", n.id(), kind_of(&n))); }
        if matches!(kind_of(&n), K::Document | K::Element | K::Attr) { for c in n.child_nodes().iter() { stack.push((c, depth + 1)); } }
    }
    None
}

fn document_shape(d: &XmlDocument) -> Option<(&'static str, String)> {
    let ch: Vec<XmlNode> = d.child_nodes().iter().collect();
    let ne = ch.iter().filter(|c| kind_of(c) == K::Element).count();
    let nt = ch.iter().filter(|c| kind_of(c) == K::Doctype).count();
    if ne > 1 { return Some(("two-document-elements", format!("{} element children", ne))); }
    if nt > 1 { return Some(("two-doctypes", format!("{} document type children", nt))); }
    match (d.document_element(), ch.iter().find(|c| kind_of(c) == K::Element)) { (Ok(e), Some(c)) if e.as_node().id() == c.id() => {} (Err(_), None) => {} (a, b) => return Some(("document-element", format!("document_element() {:?} vs child list {:?}", a.ok().map(|e| e.as_node().id()), b.map(|c| c.id())))) }
    None
}

/// all C12 checks over every container handle of the pool (attached, detached, foreign)
pub fn c12_check(h: &Hist) -> Option<(String, String)> {
    for i in 0..h.pool.h.len() {
        let hd = &h.pool.h[i];
        if !matches!(hd.kind, K::Document | K::Element | K::Attr) { continue; }
        if let Some((inv, detail)) = tree_invariants(&hd.node) { return Some((format!("tree/{}/{:?}", inv, hd.kind), format!("{} :: at {}", detail, h.pool.describe(i)))); }
    }
    for (di, d) in h.docs.iter().enumerate() {
        if let Some(w) = acyclic(&d.dom.as_node()) { return Some(("tree/cycle/Document".into(), format!("doc{}: {}", di, w))); }
        if let Some((inv, detail)) = document_shape(&d.dom) { return Some((format!("tree/{}/Document", inv), format!("doc{}: {}", di, detail))); }
    }
    // detached roots: walk up from every handle (bounded) and check acyclicity below the top
    for i in 0..h.pool.h.len() {
        let mut cur = h.pool.h[i].node.clone(); let mut steps = 0;
        while let Some(p) = cur.parent_node() { cur = p; steps += 1; if steps > 500 { return Some(("tree/ancestor-cycle".into(), format!("the ancestors of {} do not end", h.pool.describe(i)))); } }
        if kind_of(&cur) != K::Document && steps > 0 { if let Some(w) = acyclic(&cur) { return Some(("tree/cycle/detached".into(), format!("{} :: above {}", w, h.pool.describe(i)))); } }
    }
    None
}

/// the converse direction of "every listed child reports its parent": a live node that reports a parent is
/// listed among that parent's children, exactly once (raw view only: in the merged view the pieces of a merged
/// text node are deliberately not listed)
pub fn listed_by_parent(h: &Hist) -> Option<(String, String)> {
    for i in 0..h.pool.h.len() {
        let n = &h.pool.h[i].node;
        if !matches!(kind_of(n), K::Element | K::Text | K::CData | K::Comment | K::PI | K::EntRef | K::Doctype) { continue; }
        if let Some(p) = n.parent_node() {
            let times = p.child_nodes().iter().filter(|c| same_node(c, n)).count();
            if times != 1 { return Some((format!("tree/not-listed-by-parent/{:?}", kind_of(n)), format!("{} reports parent id {} ({:?}) but is listed {} times among its children", h.pool.describe(i), p.id(), kind_of(&p), times))); }
        }
    }
    None
}

fn history_len(ctx: &Ctx, r: &mut Rng) -> usize { if ctx.thorough { r.range(1, 120) } else { r.range(1, 30) } }

pub fn c12(ctx: &mut Ctx) {
    let n: u64 = if ctx.thorough { 3_000_000 } else { 200_000 };
    for i in 0..n {
        if !ctx.mine(i) { continue; }
        let mut r = ctx.rng(i);
        ctx.begin(i, "");
        let mut h = match new_history(&mut r, dom_cfg()) { Ok(h) => h, Err(e) => { ctx.inconclusive(&format!("document_not_usable:{}", crate::util::truncate(&e, 30))); continue; } };
        let merged = r.chance(1, 3);
        if merged { h.docs[0].set_merged(true); }
        if let Some((sig, detail)) = c12_check(&h) { ctx.violation(i, &format!("C12/{}/initial", sig), &format!("{} :: doc {}", detail, h.text), &[("doc", &h.text)]); continue; }
        let len = history_len(ctx, &mut r);
        let prof = if i % 3 == 0 { Profile::Moves } else { Profile::Anything };
        for _ in 0..len {
            let op = gen_op(&mut r, &h.pool, prof);
            let desc = h.pool.describe_op(&op);
            h.log.push(desc.clone());
            ctx.evaluations += 1;
            ctx.count(&format!("op/{}", op.name()));
            let out = h.pool.apply(&op);
            let ok = matches!(out, Outcome::Ok(_));
            ctx.count(match &out { Outcome::Ok(_) => "outcome/ok", Outcome::Err(_) => "outcome/err", Outcome::Panic(_) => "outcome/PANIC" });
            if let Outcome::Panic(p) = &out { ctx.count("panic(see C13)"); let _ = p; break; }
            // a removed / replaced node has no parent
            let itself = matches!(&op, Op::ReplaceChild { n, o, .. } if n == o);
            if let (true, false, Op::RemoveChild { .. } | Op::ReplaceChild { .. }, Outcome::Ok(Ret::Node(x))) = (ok, itself, &op, &out) { if let Some(p) = h.pool.h[x.idx].node.parent_node() { ctx.violation(i, "C12/tree/removed-node-has-parent", &format!("{} returned a node whose parent_node() is id {} :: history {:?} :: doc {}", desc, p.id(), h.log, h.text), &[("doc", &h.text), ("history", &h.log.join("\n"))]); break; } }
            let chk = guarded(|| c12_check(&h).or_else(|| if merged { None } else { listed_by_parent(&h) }));
            match chk {
                Caught::Ok(None) => {}
                Caught::Ok(Some((sig, detail))) => { ctx.violation(i, &format!("C12/{}", sig), &format!("{} :: after {} ({}) :: history {:?} :: doc {}", detail, desc, if ok { "Ok" } else { "Err" }, h.log, h.text), &[("doc", &h.text), ("history", &h.log.join("\n"))]); break; }
                Caught::Panic { file, msg } => { ctx.violation(i, &format!("C12/tree/navigation-panics/{}", file), &format!("{} :: after {} :: history {:?} :: doc {}", msg, desc, h.log, h.text), &[("doc", &h.text), ("history", &h.log.join("\n"))]); break; }
                Caught::Budget(_) => {}
            }
        }
        ctx.nontrivial(&format!("{}|{}", h.log.join(";"), h.text));
        if i % 199 == 0 { ctx.sample(&format!("{:?}  ON  {}", h.log, crate::util::truncate(&h.text, 200))); }
    }
}

// ---------------------------------------------------------------------------------------------
// C13: DOM Level 1 effect, specified exception, atomic failure (lock-step with the model)

fn doc_handle(pool: &Pool, d: usize) -> usize { pool.find(&pool.docs[d].as_node(), d).unwrap_or(0) }

fn real_parent(pool: &Pool, i: usize) -> Option<usize> { let h = &pool.h[i]; h.node.parent_node().map(|p| pool.find(&p, h.doc).unwrap_or(usize::MAX)) }

/// everything a caller can observe about the pool's nodes: per-document dumps, parents, child lists, data
#[derive(PartialEq, Clone)]
pub struct Snapshot { dumps: Vec<String>, parents: Vec<Option<usize>>, children: Vec<Vec<usize>>, data: Vec<Option<String>>, ser: Vec<String>, attrs: Vec<Vec<usize>> }

/// reference lines: white space of the replacement text as a space (it reads differently in attributes and in content)
fn canon_dump(s: &str) -> String {
    if s.is_empty() { return String::new(); }
    // a character-reference line carries the reference itself as its name (R <depth> "&#97;" ...); an entity's *value* may begin with "&#" too
    let charref_line = |l: &str| -> bool { l.splitn(3, ' ').nth(2).map(|rest| rest.starts_with("\"&#")).unwrap_or(false) };
    s.lines().map(|l| if l.starts_with("R ") && !charref_line(l) { l.replace("\\n", " ").replace("\\t", " ").replace("\\r", " ") } else { l.to_string() }).collect::<Vec<_>>().join("\n") + "\n"
}

pub fn snapshot(h: &Hist) -> Result<Snapshot, String> {
    let mut s = Snapshot { dumps: vec![], parents: vec![], children: vec![], data: vec![], ser: vec![], attrs: vec![] };
    for d in &h.docs { s.dumps.push(canon_dump(&crate::obs::dump_tree(&d.dom, OPT_RAW_TREE)?)); s.ser.push(d.dom.to_string()); }
    for i in 0..h.pool.h.len() {
        s.parents.push(real_parent(&h.pool, i));
        s.children.push(children_of(&h.pool, i));
        s.data.push(h.pool.data_of(i));
        let hd = &h.pool.h[i];
        s.attrs.push(if hd.kind == K::Element { hd.node.attributes().map(|m| m.iter().filter_map(|a| h.pool.find(&a.as_node(), hd.doc)).collect()).unwrap_or_default() } else { vec![] });
    }
    Ok(s)
}

fn what_changed(a: &Snapshot, b: &Snapshot) -> &'static str {
    if a.dumps != b.dumps { "tree" } else if a.ser != b.ser { "serialization" } else if a.parents != b.parents { "parent" } else if a.children != b.children { "children" } else if a.attrs != b.attrs { "attributes" } else if a.data != b.data { "data" } else { "nothing" }
}

/// Some((what, detail)) if the library's state differs from the model's
fn compare_state(h: &Hist, m: &Model, snap: &Snapshot) -> Option<(&'static str, String)> {
    for d in 0..h.docs.len() {
        let mut exp = String::new(); m.dump(doc_handle(&h.pool, d), 0, &mut exp);
        if exp != snap.dumps[d] { return Some(("tree", format!("doc{}: {}", d, first_diff(&exp, &snap.dumps[d])))); }
    }
    for i in 0..h.pool.h.len().min(m.n.len()) {
        let k = h.pool.h[i].kind;
        if k == K::Other || k == K::Fragment { continue; }
        let mp = if k == K::Attr { None } else { m.n[i].parent };
        if k != K::Doctype && snap.parents[i] != mp { return Some(("parent", format!("{} has parent {:?}, the model says {:?}", h.pool.describe(i), snap.parents[i].map(|p| if p == usize::MAX { "an unknown node".to_string() } else { h.pool.describe(p) }), mp.map(|p| h.pool.describe(p))))); }
        if matches!(k, K::Document | K::Element | K::Attr) && snap.children[i] != m.n[i].children { return Some(("children", format!("{} has children {:?}, the model says {:?}", h.pool.describe(i), snap.children[i], m.n[i].children))); }
        if k == K::Element { let mut a = snap.attrs[i].clone(); a.sort(); let mut b = m.n[i].attrs.clone(); b.sort(); if a != b { return Some(("attributes", format!("{} has attribute nodes {:?}, the model says {:?}", h.pool.describe(i), a, b))); } }
        let md = match k { K::Text | K::CData | K::Comment | K::PI => Some(m.n[i].data.clone()), K::Attr => Some(m.attr_value(i)), _ => None };
        if md.is_some() && snap.data[i] != md { return Some(("data", format!("{} has data {:?}, the model says {:?}", h.pool.describe(i), snap.data[i], md))); }
    }
    None
}

/// class of an ill-formed name argument (part of the signature, so that recorded findings stay narrow)
fn arg_class(op: &Op) -> &'static str {
    let name = match op { Op::CreateElement { name, .. } | Op::CreateAttribute { name, .. } | Op::CreateEntRef { name, .. } | Op::SetAttribute { name, .. } => name, Op::CreatePI { target, .. } => target, _ => return "" };
    if crate::spec::is_name(name) { if name.eq_ignore_ascii_case("xml") { "[reserved-target]" } else { "" } }
    else if !name.is_empty() && name.chars().all(crate::spec::is_name_char) { "[first-not-namestart]" }
    else if name.is_empty() { "[empty]" } else { "[illegal-character]" }
}

/// can a node of this kind hold the string so that it survives serialization?
pub fn storable(k: K, s: &str) -> bool {
    if !s.chars().all(crate::spec::is_char) { return false; }
    match k {
        K::Text => !s.contains('<') && !s.contains('&') && !s.contains("]]>") && !s.contains('\r'),
        K::CData => !s.contains("]]>") && !s.contains('\r'),
        K::Comment => !s.contains("--") && !s.ends_with('-') && !s.contains('\r'),
        K::PI => !s.contains("?>") && !s.starts_with(|c: char| c == ' ' || c == '\t' || c == '\n') && !s.contains('\r'),
        _ => true,
    }
}

fn touches_doctype(op: &Op, pool: &Pool) -> bool {
    let k = |i: &usize| pool.h[*i].kind == K::Doctype;
    match op { Op::AppendChild { p, c } => k(p) || k(c), Op::InsertBefore { p, c, r } => k(p) || k(c) || r.as_ref().map(k).unwrap_or(false), Op::ReplaceChild { p, n, o } => k(p) || k(n) || k(o), Op::RemoveChild { p, o } => k(p) || k(o), _ => false }
}

fn ret_idx(r: &Ret) -> Option<usize> { match r { Ret::Node(x) => Some(x.idx), Ret::OptNode(Some(x)) => Some(x.idx), _ => None } }

pub fn c13(ctx: &mut Ctx) {
    let n: u64 = if ctx.thorough { 3_000_000 } else { 200_000 };
    for i in 0..n {
        if !ctx.mine(i) { continue; }
        let mut r = ctx.rng(i);
        ctx.begin(i, "");
        let mut h = match new_history(&mut r, dom_cfg()) { Ok(h) => h, Err(e) => { ctx.inconclusive(&format!("document_not_usable:{}", crate::util::truncate(&e, 30))); continue; } };
        let mut m = Model::from_pool(&h.pool);
        let mut before = match snapshot(&h) { Ok(s) => s, Err(e) => { ctx.inconclusive(&format!("observation_failed:{}", crate::util::truncate(&e, 30))); continue; } };
        if let Some((what, detail)) = compare_state(&h, &m, &before) { ctx.inconclusive("model_does_not_mirror_initial_document"); if ctx.notes.len() < 6 { ctx.notes.push(format!("{}: {} :: {}", what, detail, h.text)); } continue; }
        let len = history_len(ctx, &mut r);
        let mut done = 0;
        let mut guard = 0;
        while done < len && guard < len * 6 {
            guard += 1;
            let op = gen_op(&mut r, &h.pool, Profile::Specified);
            let exp = m.expect(&op);
            if exp.errs.contains(&E::NotCallable) { ctx.count("skipped/not-callable"); continue; }
            if exp.unspecified && touches_doctype(&op, &h.pool) { ctx.count("skipped/doctype-edit(unspecified, see C15-doctype-removal)"); continue; }
            if exp.unspecified {
                // DOM Level 1 does not fix the outcome: the call must still not panic, and if it fails it must fail atomically;
                // after a success the model is re-read from the library (no effect is demanded)
                let desc = h.pool.describe_op(&op);
                ctx.evaluations += 1; ctx.count("unspecified-by-DOM-Level-1/run");
                match h.pool.apply(&op) {
                    Outcome::Panic(p) => { h.log.push(desc.clone()); ctx.violation(i, &format!("C13/dom/{}/unspecified/panic/{}", op.name(), p.split(".rs").next().unwrap_or("")), &format!("{} panicked ({}) :: history {:?} :: doc {}", desc, p, h.log, h.text), &[("doc", &h.text), ("history", &h.log.join("\n"))]); break; }
                    Outcome::Err(e) => { match snapshot(&h) { Ok(after) => if after != before { h.log.push(desc.clone()); ctx.violation(i, &format!("C13/dom/{}/{}/not-atomic/{}", op.name(), e.name(), what_changed(&before, &after)), &format!("{} failed with {} but changed the document ({}) :: history {:?} :: doc {}", desc, e.name(), what_changed(&before, &after), h.log, h.text), &[("doc", &h.text), ("history", &h.log.join("\n"))]); break; }, Err(_) => break } }
                    Outcome::Ok(_) => { h.log.push(desc); h.pool.register_tree(&h.docs[0].dom.as_node(), 0); h.pool.register_tree(&h.docs[1].dom.as_node(), 1); m = Model::from_pool(&h.pool); match snapshot(&h) { Ok(s2) => { if compare_state(&h, &m, &s2).is_some() { ctx.inconclusive("model_resync_failed"); break; } before = s2; } Err(_) => break } }
                }
                continue;
            }
            // an edit whose result the node kind cannot hold may be refused (C15 decides those)
            if exp.ok { if let Some((k, res)) = m.result_data(&op) { if !storable(k, &res) { ctx.count("skipped/result-not-storable(see C15)"); continue; } } }
            done += 1;
            let desc = h.pool.describe_op(&op);
            h.log.push(desc.clone());
            ctx.evaluations += 1;
            ctx.count(&format!("op/{}", op.name()));
            ctx.count(&format!("expected/{}", if exp.ok { "ok".to_string() } else { exp.describe() }));
            let out = h.pool.apply(&op);
            m.sync_new(&h.pool);
            let ctxs = |h: &Hist| format!("history {:?} :: doc {}", h.log, h.text);
            let mut stop = false;
            match out {
                Outcome::Panic(p) => { ctx.violation(i, &format!("C13/dom/{}/{}/panic/{}", op.name(), exp.describe(), p), &format!("{} panicked :: {}", desc, ctxs(&h)), &[("doc", &h.text), ("history", &h.log.join("\n"))]); stop = true; }
                Outcome::Ok(ret) => {
                    if !exp.ok {
                        ctx.violation(i, &format!("C13/dom/{}/{}{}/ok", op.name(), exp.describe(), arg_class(&op)), &format!("{} succeeded, DOM Level 1 demands {} :: {}", desc, exp.describe(), ctxs(&h)), &[("doc", &h.text), ("history", &h.log.join("\n"))]);
                        // a factory that should have failed made a detached node: the history can go on with it
                        if matches!(op, Op::CreateElement { .. } | Op::CreateAttribute { .. } | Op::CreatePI { .. } | Op::CreateEntRef { .. }) { let _ = m.apply(&op, ret_idx(&ret)); if let Ok(s) = snapshot(&h) { before = s; } } else { stop = true; }
                    }
                    else {
                        let mut problem: Option<(String, String)> = None;
                        match m.apply(&op, ret_idx(&ret)) {
                            Err(msg) => problem = Some(("return-value".into(), msg)),
                            Ok(Adopt::Nothing) => {}
                            Ok(Adopt::Attr { e, local, value }) => {
                                let found = match &h.pool.h[e].node { XmlNode::Element(el) => xml_dom::Element::get_attribute_node(el, &local), _ => None };
                                match found { None => problem = Some(("effect".into(), format!("the element has no attribute {:?} afterwards", local))), Some(a) => {
                                    let d = h.pool.h[e].doc; let an = a.as_node(); let ai = h.pool.register(&an, d);
                                    let ch: Vec<usize> = an.child_nodes().iter().map(|c| h.pool.register(&c, d)).collect();
                                    m.sync_new(&h.pool);
                                    if let Err(msg) = m.adopt_attr(e, ai, &ch, &local, &value) { problem = Some(("effect".into(), msg)); }
                                } }
                            }
                            Ok(Adopt::AttrChildren { a, value }) => {
                                let d = h.pool.h[a].doc; let an = h.pool.h[a].node.clone();
                                let ch: Vec<usize> = an.child_nodes().iter().map(|c| h.pool.register(&c, d)).collect();
                                m.sync_new(&h.pool);
                                if let Err(msg) = m.adopt_attr_children(a, &ch, &value) { problem = Some(("effect".into(), msg)); }
                            }
                        }
                        if problem.is_none() { if let Some(want) = m.read(&op) { let got = match &ret { Ret::Str(s) => s.clone(), Ret::Num(n) => n.to_string(), _ => String::new() }; if got != want { problem = Some(("return-value".into(), format!("returned {:?}, DOM Level 1 says {:?}", got, want))); } } }
                        match snapshot(&h) {
                            Ok(after) => { if problem.is_none() { if let Some((what, detail)) = compare_state(&h, &m, &after) { problem = Some((format!("effect/{}", what), detail)); } } before = after; }
                            Err(e) => { if problem.is_none() { problem = Some(("observation-error".into(), e)); } }
                        }
                        if let Some((what, detail)) = problem { ctx.violation(i, &format!("C13/dom/{}/ok/{}", op.name(), what), &format!("{} returned Ok but {} :: {}", desc, detail, ctxs(&h)), &[("doc", &h.text), ("history", &h.log.join("\n"))]); stop = true; }
                    }
                }
                Outcome::Err(e) => {
                    let class_ok = exp.errs.contains(&e);
                    if !class_ok {
                        let sig = if exp.ok { format!("C13/dom/{}/ok/{}", op.name(), e.name()) } else { format!("C13/dom/{}/{}{}/{}", op.name(), exp.describe(), arg_class(&op), e.name()) };
                        ctx.violation(i, &sig, &format!("{} failed with {}, DOM Level 1 demands {} :: {}", desc, e.name(), exp.describe(), ctxs(&h)), &[("doc", &h.text), ("history", &h.log.join("\n"))]);
                    }
                    match snapshot(&h) {
                        Ok(after) => { if after != before { ctx.violation(i, &format!("C13/dom/{}/{}/not-atomic/{}", op.name(), e.name(), what_changed(&before, &after)), &format!("{} failed with {} but changed the document ({}) :: {}", desc, e.name(), what_changed(&before, &after), ctxs(&h)), &[("doc", &h.text), ("history", &h.log.join("\n"))]); stop = true; } }
                        Err(e2) => { ctx.violation(i, &format!("C13/dom/{}/{}/not-atomic/observation-error", op.name(), e.name()), &format!("{} :: {}", e2, ctxs(&h)), &[("doc", &h.text)]); stop = true; }
                    }
                }
            }
            if stop { break; }
        }
        ctx.nontrivial(&format!("{}|{}", h.log.join(";"), h.text));
        if i % 199 == 0 { ctx.sample(&format!("{:?}  ON  {}", h.log, crate::util::truncate(&h.text, 200))); }
        // hostile strings on a scratch document: whatever the library decides, it must not panic and a refusal must be atomic
        if let Ok(d) = live_doc(SCRATCH_DOC) {
            let mut sh = Hist { pool: Pool::new(vec![d.dom.clone()]), docs: vec![d], text: SCRATCH_DOC.into(), log: vec![] };
            for _ in 0..8 {
                let op = match gen_op(&mut r, &sh.pool, Profile::Markup) {
                    Op::CreateElement { name, .. } => Op::CreateElement { d: 0, name }, Op::CreateText { data, .. } => Op::CreateText { d: 0, data }, Op::CreateComment { data, .. } => Op::CreateComment { d: 0, data },
                    Op::CreateCData { data, .. } => Op::CreateCData { d: 0, data }, Op::CreatePI { target, data, .. } => Op::CreatePI { d: 0, target, data }, Op::CreateAttribute { name, .. } => Op::CreateAttribute { d: 0, name },
                    Op::CreateEntRef { name, .. } => Op::CreateEntRef { d: 0, name }, o => o,
                };
                if !matches!(op, Op::CreateText { .. } | Op::CreateComment { .. } | Op::CreateCData { .. } | Op::CreatePI { .. } | Op::SetAttribute { .. } | Op::SetNodeValue { .. } | Op::SetData { .. } | Op::AppendData { .. } | Op::InsertData { .. } | Op::ReplaceData { .. } | Op::CreateElement { .. } | Op::CreateAttribute { .. } | Op::CreateEntRef { .. }) { continue; }
                let desc = sh.pool.describe_op(&op);
                let before = match snapshot(&sh) { Ok(s) => s, Err(_) => break };
                ctx.evaluations += 1; ctx.count("hostile-string-calls");
                match sh.pool.apply(&op) {
                    Outcome::Panic(p) => { ctx.violation(i, &format!("C13/dom/{}/hostile-string/panic/{}", op.name(), p.split(".rs").next().unwrap_or("")), &format!("{} panicked ({}) on {}", desc, p, sh.text), &[("doc", &sh.text), ("history", &desc)]); break; }
                    Outcome::Err(e) => { match snapshot(&sh) { Ok(after) => if after != before { ctx.violation(i, &format!("C13/dom/{}/{}/not-atomic/{}", op.name(), e.name(), what_changed(&before, &after)), &format!("{} failed with {} but changed the document :: history {:?} :: doc {}", desc, e.name(), sh.log, sh.text), &[("doc", &sh.text), ("history", &desc)]); break; }, Err(_) => break } }
                    Outcome::Ok(_) => { sh.log.push(desc); }
                }
            }
        }
    }
}
// ---------------------------------------------------------------------------------------------
// C14: document order survives edits

/// order keys along the canonical pre-order walk of a document: element, its attributes (each followed by its
/// children; the attributes of one element in ascending key order since their relative order is open), its children
fn order_walk(n: &XmlNode, out: &mut Vec<(usize, String)>, budget: &mut usize) {
    if *budget == 0 { return; } *budget -= 1;
    out.push((n.order(), format!("{:?}#{}", kind_of(n), n.id())));
    if let Some(attrs) = n.attributes() {
        let mut groups: Vec<Vec<(usize, String)>> = vec![];
        for a in attrs.iter() { let an = a.as_node(); if an.id() == 0 { continue; } let mut g = vec![]; order_walk(&an, &mut g, budget); groups.push(g); }
        groups.sort_by_key(|g| g[0].0);
        for g in groups { out.extend(g); }
    }
    if matches!(kind_of(n), K::Document | K::Element | K::Attr) { for c in n.child_nodes().iter() { order_walk(&c, out, budget); } }
}

/// Some((invariant, detail)) if the order keys of the attached nodes are not non-zero, distinct and increasing
pub fn order_invariant(doc: &XmlDocument) -> Option<(&'static str, String)> {
    let mut seq = vec![]; let mut budget = 50_000usize;
    order_walk(&doc.as_node(), &mut seq, &mut budget);
    for (k, w) in seq.iter().enumerate() {
        if w.0 == 0 { return Some(("zero", format!("{} (position {} of the walk) has order key 0", w.1, k))); }
        if k > 0 && seq[k - 1].0 >= w.0 { return Some((if seq[k - 1].0 == w.0 { "repeated" } else { "decreasing" }, format!("{} has key {} after {} with key {}", w.1, w.0, seq[k - 1].1, seq[k - 1].0))); }
    }
    None
}

const REQUERY: &[&str] = &["//*", "//node()", "//@*", "//text()", "//comment()", "//processing-instruction()", "//*[1]", "//*[last()]", "//*/following::*", "//*/preceding::*", "(//*)[2]", "(//node())[last()]", "//*[2]/following-sibling::node()", "//*/preceding-sibling::node()[1]", "//*/ancestor::*", "//*[@*]", "//a | //b | //c", "//text() | //comment() | //*", "(//a | //b)[1]", "(//comment() | //text())[last()]", "count(//node())", "count(//@*)", "//*/*[2]", "//*[position() = 2]/node()", "/*/node()[3]", "//*/following-sibling::*[1]", "//*/preceding::node()[1]", "//*[last()]/preceding-sibling::node()", "string(/)", "//item | //x1 | //n | //k", "(//@* | //*)[3]", "//*/@*[1]/..", "//*[not(*)]", "/node()", "/*/*/following::node()[2]"];

pub fn c14(ctx: &mut Ctx) {
    let n: u64 = if ctx.thorough { 1_500_000 } else { 100_000 };
    for i in 0..n {
        if !ctx.mine(i) { continue; }
        let mut r = ctx.rng(i);
        ctx.begin(i, "");
        let mut h = match new_history(&mut r, dom_cfg()) { Ok(h) => h, Err(e) => { ctx.inconclusive(&format!("document_not_usable:{}", crate::util::truncate(&e, 30))); continue; } };
        if let Some((inv, detail)) = order_invariant(&h.docs[0].dom) { ctx.violation(i, &format!("C14/order/{}/initial", inv), &format!("{} :: doc {}", detail, h.text), &[("doc", &h.text)]); continue; }
        let len = history_len(ctx, &mut r);
        for step in 0..len {
            let op = gen_op(&mut r, &h.pool, if step % 4 == 3 { Profile::Anything } else { Profile::Moves });
            // read-only calls do not matter here
            if matches!(op, Op::SubstringData { .. } | Op::Length { .. }) { continue; }
            let desc = h.pool.describe_op(&op);
            h.log.push(desc.clone());
            ctx.evaluations += 1;
            ctx.count(&format!("op/{}", op.name()));
            let out = h.pool.apply(&op);
            if let Outcome::Panic(_) = out { ctx.count("panic(see C13)"); break; }
            let ok = matches!(out, Outcome::Ok(_));
            ctx.count(if ok { "outcome/ok" } else { "outcome/err" });
            let mut stop = false;
            for (di, d) in h.docs.iter().enumerate() {
                match guarded(|| order_invariant(&d.dom)) {
                    Caught::Ok(None) => {}
                    Caught::Ok(Some((inv, detail))) => { ctx.violation(i, &format!("C14/order/{}/{}", inv, op.name()), &format!("doc{}: {} :: after {} ({}) :: history {:?} :: doc {}", di, detail, desc, if ok { "Ok" } else { "Err" }, h.log, h.text), &[("doc", &h.text), ("history", &h.log.join("\n"))]); stop = true; }
                    Caught::Panic { file, msg } => { ctx.violation(i, &format!("C14/order/walk-panics/{}", file), &format!("{} :: after {} :: history {:?} :: doc {}", msg, desc, h.log, h.text), &[("doc", &h.text), ("history", &h.log.join("\n"))]); stop = true; }
                    Caught::Budget(_) => {}
                }
                if stop { break; }
            }
            if stop { break; }
            // edited document versus a fresh parse of its serialization, on a sample of the steps
            if ok && (step % 3 == 0 || step + 1 == len) {
                let ser = h.docs[0].dom.to_string();
                let fresh = match live_doc(&ser) { Ok(f) => f, Err(_) => { ctx.inconclusive("serialization_not_reparsable(see C15)"); continue; } };
                h.docs[0].set_merged(true); fresh.set_merged(true);
                let live_s = crate::props::xpathp::subject_of(h.docs[0].dom.clone());
                let fresh_s = crate::props::xpathp::subject_of(fresh.dom.clone());
                // the two documents must be the same tree for the comparison to mean anything (C15 decides the rest)
                let same = crate::obs::dump_tree(&h.docs[0].dom, crate::props::xpathp::OPT_NS).ok() == crate::obs::dump_tree(&fresh.dom, crate::props::xpathp::OPT_NS).ok();
                if !same { ctx.inconclusive("reparsed_document_differs(see C15)"); h.docs[0].set_merged(false); continue; }
                for q in REQUERY {
                    let (a, _) = crate::props::xpathp::xmlrs_eval(&live_s, q, &[], None, crate::props::xpathp::STEP_BUDGET);
                    let (b, _) = crate::props::xpathp::xmlrs_eval(&fresh_s, q, &[], None, crate::props::xpathp::STEP_BUDGET);
                    ctx.count("requery");
                    if let Some(kind) = crate::props::xpathp::diff(&b, &a) {
                        ctx.violation(i, &format!("C14/requery/{}", kind), &format!("{} gives {} on the edited document but {} on a fresh parse of {} :: history {:?} :: doc {}", q, a.brief(), b.brief(), ser, h.log, h.text), &[("doc", &h.text), ("history", &h.log.join("\n")), ("expr", q)]);
                        stop = true; break;
                    }
                }
                h.docs[0].set_merged(false);
                if stop { break; }
            }
        }
        ctx.nontrivial(&format!("{}|{}", h.log.join(";"), h.text));
        if i % 199 == 0 { ctx.sample(&format!("{:?}  ON  {}", h.log, crate::util::truncate(&h.text, 200))); }
    }
}
// ---------------------------------------------------------------------------------------------
// C15: edits that succeed keep the document serializable and faithful

/// merged-text view of a raw dump: runs of text / CDATA / reference lines of one depth become one text line
pub fn merge_dump(raw: &str) -> String {
    let mut out = String::new();
    let mut run: Option<(String, String)> = None; // depth, escaped content
    let flush = |run: &mut Option<(String, String)>, out: &mut String| { if let Some((d, v)) = run.take() { if !v.is_empty() { out.push_str(&format!("X {} \"{}\"\n", d, v)); } } };
    for l in raw.lines() {
        let mut it = l.splitn(3, ' ');
        let (k, d, rest) = (it.next().unwrap_or(""), it.next().unwrap_or(""), it.next().unwrap_or(""));
        let piece = match k { "X" | "K" => Some(rest.trim_matches('"').to_string()), "R" => rest.rfind(" \"").map(|p| rest[p + 2..].trim_end_matches('"').to_string()), _ => None };
        match piece {
            Some(v) => { match &mut run { Some((rd, rv)) if rd == d => rv.push_str(&v), _ => { flush(&mut run, &mut out); run = Some((d.to_string(), v)); } } }
            None => { flush(&mut run, &mut out); out.push_str(l); out.push('\n'); }
        }
    }
    flush(&mut run, &mut out);
    out
}

/// which stored string makes the serialization unfaithful (signature component)
fn culprit(doc: &XmlDocument) -> &'static str {
    fn walk(n: &XmlNode, found: &mut Option<&'static str>, budget: &mut usize) {
        if *budget == 0 || found.is_some() { return; } *budget -= 1;
        use xml_dom::{Attr, CharacterData, ProcessingInstruction};
        match n {
            XmlNode::Text(t) => { let d = t.data().unwrap_or_default(); if d.contains('<') || d.contains('&') || d.contains("]]>") { *found = Some("text-markup"); } }
            XmlNode::Comment(c) => { let d = c.data().unwrap_or_default(); if d.contains("--") || d.ends_with('-') { *found = Some("comment-dashes"); } }
            XmlNode::CData(c) => { let d = c.data().unwrap_or_default(); if d.contains("]]>") { *found = Some("cdata-end"); } }
            XmlNode::PI(p) => { let d = p.data(); if d.contains("?>") { *found = Some("pi-end"); } else if d.starts_with(|c: char| c == ' ' || c == '\t' || c == '\n') { *found = Some("pi-leading-space"); } }
            XmlNode::Element(_) | XmlNode::Document(_) => {
                if let Some(attrs) = n.attributes() { for a in attrs.iter() { for c in a.as_node().child_nodes().iter() { if let XmlNode::Text(t) = &c { let d = t.data().unwrap_or_default(); if d.contains('<') || d.contains('&') { *found = Some("attr-markup"); } if d.contains('"') && d.contains('\'') { *found = Some("attr-both-quotes"); } } } let v = a.value().unwrap_or_default(); let _ = v; } }
                let ch: Vec<XmlNode> = n.child_nodes().iter().collect();
                let mut run = String::new();
                for c in &ch { if let XmlNode::Text(t) = c { run.push_str(&t.data().unwrap_or_default()); if run.contains("]]>") && found.is_none() { *found = Some("adjacent-text-cdata-end"); } } else { run.clear(); } }
                for c in &ch { walk(c, found, budget); }
            }
            _ => {}
        }
    }
    let mut f = None; let mut b = 20_000usize;
    // single nodes first (their classes are more specific), adjacency is checked on the way
    walk(&doc.as_node(), &mut f, &mut b);
    f.unwrap_or("unclassified")
}

/// the print -> parse -> compare oracle on a live document; None = faithful (or nothing to compare)
pub fn c15_eval(doc: &XmlDocument) -> Option<(String, String)> {
    if doc.document_element().is_err() { return None; }
    let ser = doc.to_string();
    let fresh = match live_doc(&ser) {
        Ok(f) => f,
        Err(e) if e.contains("NotFoundReference") && doc.doc_type().is_none() => return Some(("reparse-fails/undeclared-entity-after-doctype-removal".into(), format!("the serialization refers to an entity whose declaration left with the document type ({}) :: {}", crate::util::truncate(&e, 60), ser))),
        Err(e) => return Some((format!("reparse-fails/{}", culprit(doc)), format!("the serialization is rejected ({}) :: {}", crate::util::truncate(&e, 60), ser))),
    };
    let live = match crate::obs::dump_tree(doc, OPT_RAW_TREE) { Ok(d) => merge_dump(&d), Err(e) => return Some(("observation-error".into(), e)) };
    let back = match crate::obs::dump_tree(&fresh.dom, OPT_RAW_TREE) { Ok(d) => merge_dump(&d), Err(e) => return Some(("observation-error-reparsed".into(), e)) };
    if live != back { return Some((format!("differs/{}", culprit(doc)), format!("{} :: serialization {}", first_diff(&live, &back), ser))); }
    None
}

/// all ways to cut a string into `k` non-empty pieces
fn cuts(s: &str, k: usize) -> Vec<Vec<String>> {
    let cs: Vec<char> = s.chars().collect();
    if k == 1 { return vec![vec![s.to_string()]]; }
    let mut out = vec![];
    for i in 1..cs.len() { let head: String = cs[..i].iter().collect(); let tail: String = cs[i..].iter().collect(); for mut rest in cuts(&tail, k - 1) { let mut v = vec![head.clone()]; v.append(&mut rest); out.push(v); } }
    out
}

/// Directed junction table: every way to spell a forbidden sequence across several individually harmless
/// edits (adjacent nodes, append / insert next to existing data, deletions that join two characters).
/// Each script runs on a scratch document; every call may be refused, but what succeeds must stay faithful.
fn c15_directed(ctx: &mut Ctx, base: u64) {
    const DOC: &str = "<r a='v'><e/><f>t</f></r>";
    let mut scripts: Vec<(String, Vec<String>)> = vec![]; // (kind, arguments)
    for seq in ["]]>", "a]]>b", "]]]>", "]]>]]>"] { for k in 2..=3 { for c in cuts(seq, k) { scripts.push(("adjacent-text".into(), c.clone())); scripts.push(("text-append".into(), c.clone())); scripts.push(("cdata-append".into(), c.clone())); scripts.push(("text-split-then-set".into(), c.clone())); scripts.push(("text-insert-front".into(), c)); } } }
    for seq in ["--", "a--b", "x-", "-", "--x", "a-"] { for k in 1..=3 { for c in cuts(seq, k) { if c.len() == k { scripts.push(("comment-append".into(), c.clone())); scripts.push(("comment-insert-front".into(), c)); } } } }
    for (data, off, count) in [("a-x-b", 2, 1), ("-x-", 1, 1), ("ab-c", 3, 1), ("ab-c", 3, 9), ("-ab", 1, 2), ("a-", 0, 1), ("x--y", 0, 0)] { scripts.push(("comment-delete".into(), vec![data.into(), off.to_string(), count.to_string()])); scripts.push(("comment-replace-empty".into(), vec![data.into(), off.to_string(), count.to_string()])); }
    for (data, off, count) in [("]]x>", 2, 1), ("]x]>", 1, 1), ("a]]xy>b", 3, 2), ("]]>x", 3, 1)] { scripts.push(("text-delete".into(), vec![data.into(), off.to_string(), count.to_string()])); scripts.push(("cdata-delete".into(), vec![data.into(), off.to_string(), count.to_string()])); }
    for seq in ["?>", "a?>b", "??>"] { scripts.push(("pi-set-data".into(), vec![seq.into()])); scripts.push(("pi-create".into(), vec![seq.into()])); }
    for c in cuts("'\"", 2).into_iter().chain(cuts("a'b\"c", 2)).chain(cuts("\"'", 2)) { scripts.push(("attr-adjacent-text".into(), c.clone())); scripts.push(("attr-text-append".into(), c)); }
    for v in ["<", "a<b", "&", "a&b", "&amp;", "'\"", "\"'", "a\"b'c"] { scripts.push(("attr-set-value".into(), vec![v.into()])); scripts.push(("attr-set-attribute".into(), vec![v.into()])); scripts.push(("text-set-data".into(), vec![v.into()])); }
    for (si, (kind, args)) in scripts.iter().enumerate() {
        let idx = base + si as u64;
        if !ctx.mine(idx) { continue; }
        ctx.begin(idx, &format!("directed {} {:?}", kind, args));
        let d = match live_doc(DOC) { Ok(d) => d, Err(_) => { ctx.inconclusive("document_not_usable"); continue; } };
        let mut h = Hist { pool: Pool::new(vec![d.dom.clone()]), docs: vec![d], text: DOC.into(), log: vec![] };
        let find = |h: &Hist, k: K, name: &str| (0..h.pool.h.len()).find(|&i| h.pool.h[i].kind == k && (name.is_empty() || h.pool.h[i].node.node_name() == name));
        let (e, f, a) = (find(&h, K::Element, "e").unwrap_or(0), find(&h, K::Element, "f").unwrap_or(0), find(&h, K::Attr, "a").unwrap_or(0));
        let t_in_f = children_of(&h.pool, f).first().cloned().unwrap_or(0);
        // the calls of the script; a refused call ends the script (refusal is fine)
        let mut calls: Vec<Op> = vec![];
        let num = |s: &String| s.parse::<usize>().unwrap_or(0);
        match kind.as_str() {
            "adjacent-text" | "attr-adjacent-text" => { let p = if kind == "adjacent-text" { e } else { a }; for x in args { calls.push(Op::CreateText { d: 0, data: x.clone() }); calls.push(Op::AppendChild { p, c: usize::MAX }); } }
            "text-append" => { calls.push(Op::SetData { n: t_in_f, data: args[0].clone() }); for x in &args[1..] { calls.push(Op::AppendData { n: t_in_f, data: x.clone() }); } }
            "attr-text-append" => { let t = children_of(&h.pool, a).first().cloned().unwrap_or(0); calls.push(Op::SetData { n: t, data: args[0].clone() }); for x in &args[1..] { calls.push(Op::AppendData { n: t, data: x.clone() }); } }
            "text-insert-front" => { calls.push(Op::SetData { n: t_in_f, data: args[args.len() - 1].clone() }); for x in args[..args.len() - 1].iter().rev() { calls.push(Op::InsertData { n: t_in_f, off: 0, data: x.clone() }); } }
            "text-split-then-set" => { calls.push(Op::SetData { n: t_in_f, data: "xy".into() }); calls.push(Op::SplitText { n: t_in_f, off: 1 }); calls.push(Op::SetData { n: t_in_f, data: args[0].clone() }); calls.push(Op::SetData { n: usize::MAX, data: args[1..].concat() }); }
            "cdata-append" | "comment-append" | "comment-insert-front" => {
                calls.push(if kind == "cdata-append" { Op::CreateCData { d: 0, data: String::new() } } else { Op::CreateComment { d: 0, data: String::new() } });
                calls.push(Op::AppendChild { p: e, c: usize::MAX });
                if kind == "comment-insert-front" { for x in args.iter().rev() { calls.push(Op::InsertData { n: usize::MAX - 1, off: 0, data: x.clone() }); } } else { for x in args { calls.push(Op::AppendData { n: usize::MAX - 1, data: x.clone() }); } }
            }
            "comment-delete" | "comment-replace-empty" | "text-delete" | "cdata-delete" => {
                calls.push(match kind.split('-').next().unwrap_or("") { "comment" => Op::CreateComment { d: 0, data: args[0].clone() }, "cdata" => Op::CreateCData { d: 0, data: args[0].clone() }, _ => Op::CreateText { d: 0, data: args[0].clone() } });
                calls.push(Op::AppendChild { p: e, c: usize::MAX });
                calls.push(if kind == "comment-replace-empty" { Op::ReplaceData { n: usize::MAX - 1, off: num(&args[1]), count: num(&args[2]), data: String::new() } } else { Op::DeleteData { n: usize::MAX - 1, off: num(&args[1]), count: num(&args[2]) } });
            }
            "pi-set-data" => { calls.push(Op::CreatePI { d: 0, target: "p".into(), data: "d".into() }); calls.push(Op::AppendChild { p: e, c: usize::MAX }); calls.push(Op::SetData { n: usize::MAX - 1, data: args[0].clone() }); }
            "pi-create" => { calls.push(Op::CreatePI { d: 0, target: "p".into(), data: args[0].clone() }); calls.push(Op::AppendChild { p: e, c: usize::MAX }); }
            "attr-set-value" => calls.push(Op::SetNodeValue { n: a, value: args[0].clone() }),
            "attr-set-attribute" => calls.push(Op::SetAttribute { e, name: "b".into(), value: args[0].clone() }),
            "text-set-data" => calls.push(Op::SetData { n: t_in_f, data: args[0].clone() }),
            _ => {}
        }
        let mut last_created: Option<usize> = None; // usize::MAX refers to the node the previous call returned, MAX-1 to the last created node
        let mut last_ret: Option<usize> = None;
        for call in calls {
            let fix = |i: usize| -> Option<usize> { if i == usize::MAX { last_ret } else if i == usize::MAX - 1 { last_created } else { Some(i) } };
            let op = match call {
                Op::AppendChild { p, c } => match fix(c) { Some(c) => Op::AppendChild { p, c }, None => break },
                Op::SetData { n, data } => match fix(n) { Some(n) => Op::SetData { n, data }, None => break },
                Op::AppendData { n, data } => match fix(n) { Some(n) => Op::AppendData { n, data }, None => break },
                Op::InsertData { n, off, data } => match fix(n) { Some(n) => Op::InsertData { n, off, data }, None => break },
                Op::DeleteData { n, off, count } => match fix(n) { Some(n) => Op::DeleteData { n, off, count }, None => break },
                Op::ReplaceData { n, off, count, data } => match fix(n) { Some(n) => Op::ReplaceData { n, off, count, data }, None => break },
                o => o,
            };
            let desc = h.pool.describe_op(&op);
            ctx.evaluations += 1; ctx.count(&format!("directed/{}", kind));
            match h.pool.apply(&op) {
                Outcome::Panic(_) => { ctx.count("panic(see C13)"); break; }
                Outcome::Err(_) => { ctx.count("directed/refused"); break; }
                Outcome::Ok(ret) => {
                    h.log.push(desc.clone());
                    if let Ret::Node(x) = &ret { last_ret = Some(x.idx); if matches!(op, Op::CreateText { .. } | Op::CreateComment { .. } | Op::CreateCData { .. } | Op::CreatePI { .. }) { last_created = Some(x.idx); } }
                    if let Some((sig, detail)) = c15_eval(&h.docs[0].dom) { ctx.violation(idx, &format!("C15/serial/{}", sig), &format!("directed script {} {:?}: after {} :: {} :: successful calls {:?}", kind, args, desc, detail, h.log), &[("doc", DOC), ("history", &h.log.join("\n"))]); break; }
                }
            }
        }
        ctx.nontrivial(&format!("directed|{}|{:?}", kind, args));
    }
}

pub fn c15(ctx: &mut Ctx) {
    c15_directed(ctx, 20_000_000);
    let n: u64 = if ctx.thorough { 2_000_000 } else { 150_000 };
    for i in 0..n {
        if !ctx.mine(i) { continue; }
        let mut r = ctx.rng(i);
        ctx.begin(i, "");
        let mut h = match new_history(&mut r, dom_cfg()) { Ok(h) => h, Err(e) => { ctx.inconclusive(&format!("document_not_usable:{}", crate::util::truncate(&e, 30))); continue; } };
        if let Some((sig, detail)) = c15_eval(&h.docs[0].dom) { ctx.inconclusive("initial_document_not_faithful(see C04)"); if ctx.notes.len() < 6 { ctx.notes.push(format!("{}: {} :: {}", sig, detail, h.text)); } continue; }
        let len = history_len(ctx, &mut r);
        for _ in 0..len {
            let op = gen_op(&mut r, &h.pool, if i % 2 == 0 { Profile::MarkupNs } else { Profile::Markup });
            if matches!(op, Op::SubstringData { .. } | Op::Length { .. }) { continue; }
            let desc = h.pool.describe_op(&op);
            ctx.evaluations += 1;
            ctx.count(&format!("op/{}", op.name()));
            let out = h.pool.apply(&op);
            match out {
                Outcome::Panic(_) => { ctx.count("panic(see C13)"); break; }
                Outcome::Err(_) => { ctx.count("outcome/refused"); continue; }
                Outcome::Ok(_) => {}
            }
            ctx.count("outcome/ok");
            h.log.push(desc.clone());
            match guarded(|| c15_eval(&h.docs[0].dom)) {
                Caught::Ok(None) => { ctx.count("faithful-after-ok"); }
                Caught::Ok(Some((sig, detail))) => { ctx.violation(i, &format!("C15/serial/{}", sig), &format!("after {} :: {} :: successful calls {:?} :: doc {}", desc, detail, h.log, h.text), &[("doc", &h.text), ("history", &h.log.join("\n"))]); break; }
                Caught::Panic { file, msg } => { ctx.violation(i, &format!("C15/serial/panic/{}", file), &format!("{} :: after {} :: {:?}", msg, desc, h.log), &[("doc", &h.text), ("history", &h.log.join("\n"))]); break; }
                Caught::Budget(_) => {}
            }
        }
        ctx.nontrivial(&format!("{}|{}", h.log.join(";"), h.text));
        if i % 199 == 0 { ctx.sample(&format!("{:?}  ON  {}", h.log, crate::util::truncate(&h.text, 200))); }
    }
}
// ---------------------------------------------------------------------------------------------
// C16: character-data operations on character offsets (Vec<char> model, lock-step)

const C16_CONTENTS: &[&str] = &["", "a", "hello", "\u{e9}", "h\u{1d4b3}y", "e\u{301}x", "ab cd", "\u{1d4b3}\u{1d4b3}\u{1d4b3}", "]]a>", "a-x-b", "\u{e9}]]"];
const C16_ARGS: &[&str] = &["", "Z", "\u{e9}\u{1d4b3}", ">", "-"];
const C16_PLACEMENTS: &[&str] = &["text/attached", "comment/attached", "cdata/attached", "text/in-attribute", "text/detached", "comment/detached", "cdata/detached"];

fn off_class(off: usize, len: usize) -> &'static str { if off > len + 2 { "huge" } else if off > len { "past-end" } else if off == len { "at-end" } else { "inside" } }
fn count_class(off: usize, count: usize, len: usize) -> &'static str { if count > len + 2 { "huge" } else if count == 0 { "zero" } else if off <= len && count > len - off { "past-end" } else if off <= len && count == len - off { "to-end" } else { "inside" } }

/// build the node under test; returns (history, pool index of the node)
fn c16_setup(content: &str, placement: &str) -> Option<(Hist, usize)> {
    let text = "<r a='x'><e/><f>t</f></r>".to_string();
    let d = live_doc(&text).ok()?;
    let mut h = Hist { pool: Pool::new(vec![d.dom.clone()]), docs: vec![d], text, log: vec![] };
    let (kind, place) = placement.split_once('/')?;
    let create = match kind { "text" => Op::CreateText { d: 0, data: content.to_string() }, "comment" => Op::CreateComment { d: 0, data: content.to_string() }, _ => Op::CreateCData { d: 0, data: content.to_string() } };
    let n = match h.pool.apply(&create) { Outcome::Ok(Ret::Node(x)) => x.idx, _ => return None };
    let e = (0..h.pool.h.len()).find(|&i| h.pool.h[i].kind == K::Element && h.pool.h[i].node.node_name() == "e")?;
    match place {
        "attached" => { if !matches!(h.pool.apply(&Op::AppendChild { p: e, c: n }), Outcome::Ok(_)) { return None; } }
        "in-attribute" => { let a = (0..h.pool.h.len()).find(|&i| h.pool.h[i].kind == K::Attr)?; if !matches!(h.pool.apply(&Op::AppendChild { p: a, c: n }), Outcome::Ok(_)) { return None; } }
        _ => {}
    }
    Some((h, n))
}

/// one call against the Vec<char> model. Returns Some((what, detail)) on disagreement; updates `model` on success.
fn c16_call(h: &mut Hist, n: usize, op: &Op, model: &mut Vec<char>, attached: bool) -> Option<(String, String)> {
    let len = model.len();
    let before_real = h.pool.data_of(n);
    let clip = |off: usize, count: usize| -> usize { off.saturating_add(count).min(len) };
    // expected outcome
    enum X { Err, Unit(Vec<char>), Str(String), Num(usize), Split(Vec<char>, Vec<char>), Either }
    let exp = match op {
        Op::Length { .. } => X::Num(len),
        Op::SubstringData { off, count, .. } => if *off > len { X::Err } else { X::Str(model[*off..clip(*off, *count)].iter().collect()) },
        Op::AppendData { data, .. } => { let mut m = model.clone(); m.extend(data.chars()); X::Unit(m) }
        Op::SetData { data, .. } => X::Unit(data.chars().collect()),
        Op::InsertData { off, data, .. } => if *off > len { X::Err } else { let mut m: Vec<char> = model[..*off].to_vec(); m.extend(data.chars()); m.extend(model[*off..].iter()); X::Unit(m) },
        Op::DeleteData { off, count, .. } => if *off > len { X::Err } else { let mut m: Vec<char> = model[..*off].to_vec(); m.extend(model[clip(*off, *count)..].iter()); X::Unit(m) },
        Op::ReplaceData { off, count, data, .. } => if *off > len { X::Err } else { let mut m: Vec<char> = model[..*off].to_vec(); m.extend(data.chars()); m.extend(model[clip(*off, *count)..].iter()); X::Unit(m) },
        Op::SplitText { off, .. } => if *off > len { X::Err } else if !attached { X::Either } else { X::Split(model[..*off].to_vec(), model[*off..].to_vec()) },
        _ => return None,
    };
    let out = h.pool.apply(op);
    let after_real = h.pool.data_of(n);
    let s = |v: &Vec<char>| -> String { v.iter().collect() };
    match (exp, out) {
        (_, Outcome::Panic(p)) => Some(("panic".into(), p)),
        (X::Err, Outcome::Err(E::IndexSize)) => { if after_real != before_real { Some(("error-changed-data".into(), format!("data {:?} -> {:?}", before_real, after_real))) } else { None } }
        (X::Err, Outcome::Err(e)) => Some((format!("INDEX_SIZE-expected/{}", e.name()), String::new())),
        (X::Err, Outcome::Ok(r)) => Some(("INDEX_SIZE-expected/ok".into(), format!("returned {:?}; data now {:?}", r, after_real))),
        (X::Either, Outcome::Err(_)) => { if after_real != before_real { Some(("error-changed-data".into(), format!("data {:?} -> {:?}", before_real, after_real))) } else { None } }
        (X::Either, Outcome::Ok(_)) => { *model = after_real.unwrap_or_default().chars().collect(); None }
        // an edit whose result the node kind cannot hold may be refused (C15); the refusal must leave everything as it was,
        // and every later answer (length, offsets) must still be about the unchanged data
        (X::Unit(m), Outcome::Err(_)) if !storable(h.pool.h[n].kind, &s(&m)) => { if after_real != before_real { Some(("error-changed-data".into(), format!("data {:?} -> {:?}", before_real, after_real))) } else { None } }
        (_, Outcome::Err(e)) => Some((format!("ok-expected/{}", e.name()), format!("data {:?}", after_real))),
        (X::Num(k), Outcome::Ok(Ret::Num(g))) => if g == k { None } else { Some(("length".into(), format!("length() = {} for {:?} ({} characters)", g, s(model), k))) },
        (X::Str(w), Outcome::Ok(Ret::Str(g))) => if g == w { None } else { Some(("substring".into(), format!("returned {:?}, expected {:?}", g, w))) },
        (X::Unit(m), Outcome::Ok(_)) => { let ok = after_real.as_deref() == Some(s(&m).as_str()); let r = if ok { None } else { Some(("data".into(), format!("data is {:?}, expected {:?}", after_real, s(&m)))) }; *model = m; r }
        (X::Split(a, b), Outcome::Ok(Ret::Node(x))) => {
            let second = h.pool.data_of(x.idx);
            let mut problems = vec![];
            if after_real.as_deref() != Some(s(&a).as_str()) { problems.push(format!("the node keeps {:?}, expected {:?}", after_real, s(&a))); }
            if second.as_deref() != Some(s(&b).as_str()) { problems.push(format!("the new node holds {:?}, expected {:?}", second, s(&b))); }
            match h.pool.h[n].node.next_sibling() { Some(nx) if nx.id() == h.pool.h[x.idx].node.id() => {} other => problems.push(format!("the new node is not the next sibling of the original (next sibling id {:?})", other.map(|o| o.id()))) }
            if kind_of(&h.pool.h[x.idx].node) != kind_of(&h.pool.h[n].node) { problems.push("the new node has another node type".into()); }
            *model = a;
            if problems.is_empty() { None } else { Some(("split".into(), problems.join("; "))) }
        }
        (_, Outcome::Ok(r)) => Some(("return-kind".into(), format!("{:?}", r))),
    }
}

pub fn c16(ctx: &mut Ctx) {
    let mut idx = 0u64;
    let specials = |len: usize| -> Vec<usize> { let mut v: Vec<usize> = (0..=len + 2).collect(); v.extend([usize::MAX - 1, usize::MAX, isize::MAX as usize]); v };
    // (a) exhaustive lattice, every call on a fresh node
    for content in C16_CONTENTS { for placement in C16_PLACEMENTS {
        idx += 1;
        if !ctx.mine(idx) { continue; }
        ctx.begin(idx, &format!("{:?} {}", content, placement));
        let len = content.chars().count();
        let attached = !placement.ends_with("detached");
        let splittable = !placement.starts_with("comment");
        let mut calls: Vec<Op> = vec![Op::Length { n: 0 }];
        for &off in &specials(len) {
            for &count in &specials(len) { calls.push(Op::SubstringData { n: 0, off, count }); calls.push(Op::DeleteData { n: 0, off, count }); for a in C16_ARGS { calls.push(Op::ReplaceData { n: 0, off, count, data: a.to_string() }); } }
            for a in C16_ARGS { calls.push(Op::InsertData { n: 0, off, data: a.to_string() }); }
            if splittable { calls.push(Op::SplitText { n: 0, off }); }
        }
        for a in C16_ARGS { calls.push(Op::AppendData { n: 0, data: a.to_string() }); calls.push(Op::SetData { n: 0, data: a.to_string() }); }
        for call in calls {
            let (mut h, n) = match c16_setup(content, placement) { Some(x) => x, None => { ctx.inconclusive("setup_failed"); break; } };
            let op = retarget(&call, n);
            let mut model: Vec<char> = content.chars().collect();
            ctx.evaluations += 1;
            ctx.count(&format!("lattice/{}", op.name()));
            let desc = h.pool.describe_op(&op);
            ctx.nontrivial(&format!("{}|{}|{}", content, placement, desc));
            if let Some((what, detail)) = c16_call(&mut h, n, &op, &mut model, attached) {
                let (oc, cc) = classes(&op, len);
                ctx.violation(idx, &format!("C16/chardata/{}/{}/{}/{}", op.name(), oc, cc, what), &format!("{} on {:?} ({}) :: {}", desc, content, placement, detail), &[("content", content), ("placement", placement), ("call", &desc)]);
            }
        }
    } }
    // (b) random sequences of calls on one node
    let nseq: u64 = if ctx.thorough { 3_000_000 } else { 200_000 };
    for i in 0..nseq {
        let id = 1_000_000 + i;
        if !ctx.mine(id) { continue; }
        let mut r = ctx.rng(id);
        ctx.begin(id, "");
        let content = *r.pick(C16_CONTENTS); let placement = *r.pick(C16_PLACEMENTS);
        let (mut h, n) = match c16_setup(content, placement) { Some(x) => x, None => { ctx.inconclusive("setup_failed"); continue; } };
        let attached = !placement.ends_with("detached");
        let mut model: Vec<char> = content.chars().collect();
        let steps = r.range(2, 12);
        let mut log = vec![];
        for _ in 0..steps {
            let len = model.len();
            let arg = |r: &mut Rng| r.pick_s(&["", "Z", "\u{e9}\u{1d4b3}", "ab", "e\u{301}"]).to_string();
            let op = match r.below(8) {
                0 => Op::Length { n }, 1 => Op::SubstringData { n, off: offset_for(&mut r, len), count: offset_for(&mut r, len) }, 2 => Op::AppendData { n, data: arg(&mut r) },
                3 => Op::InsertData { n, off: offset_for(&mut r, len), data: arg(&mut r) }, 4 => Op::DeleteData { n, off: offset_for(&mut r, len), count: offset_for(&mut r, len) },
                5 => Op::ReplaceData { n, off: offset_for(&mut r, len), count: offset_for(&mut r, len), data: arg(&mut r) }, 6 => Op::SetData { n, data: arg(&mut r) },
                _ => if placement.starts_with("comment") { Op::Length { n } } else { Op::SplitText { n, off: offset_for(&mut r, len) } },
            };
            let desc = h.pool.describe_op(&op);
            log.push(desc.clone());
            ctx.evaluations += 1;
            ctx.count(&format!("sequence/{}", op.name()));
            if let Some((what, detail)) = c16_call(&mut h, n, &op, &mut model, attached) {
                let (oc, cc) = classes(&op, len);
                ctx.violation(id, &format!("C16/chardata/{}/{}/{}/{}", op.name(), oc, cc, what), &format!("{} :: sequence {:?} on {:?} ({}) :: {}", desc, log, content, placement, detail), &[("content", content), ("placement", placement), ("call", &log.join("\n"))]);
                break;
            }
        }
        ctx.nontrivial(&format!("{}|{}|{}", content, placement, log.join(";")));
        if i % 499 == 0 { ctx.sample(&format!("{:?} ({}): {:?}", content, placement, log)); }
    }
}

fn retarget(op: &Op, n: usize) -> Op {
    match op.clone() {
        Op::Length { .. } => Op::Length { n }, Op::SubstringData { off, count, .. } => Op::SubstringData { n, off, count }, Op::DeleteData { off, count, .. } => Op::DeleteData { n, off, count },
        Op::ReplaceData { off, count, data, .. } => Op::ReplaceData { n, off, count, data }, Op::InsertData { off, data, .. } => Op::InsertData { n, off, data }, Op::SplitText { off, .. } => Op::SplitText { n, off },
        Op::AppendData { data, .. } => Op::AppendData { n, data }, Op::SetData { data, .. } => Op::SetData { n, data }, o => o,
    }
}

fn classes(op: &Op, len: usize) -> (&'static str, &'static str) {
    match op {
        Op::SubstringData { off, count, .. } | Op::DeleteData { off, count, .. } | Op::ReplaceData { off, count, .. } => (off_class(*off, len), count_class(*off, *count, len)),
        Op::InsertData { off, .. } | Op::SplitText { off, .. } => (off_class(*off, len), "-"),
        _ => ("-", "-"),
    }
}
/// replay of the witnesses of recorded DOM findings: Some(signature) if the defect is still there
pub fn witness(prop: &str, f: &[String], _: &mut Ctx) -> Option<String> {
    let kind = f.first()?.as_str();
    let d = live_doc(f.get(1).map(|s| s.as_str()).filter(|s| s.starts_with('<')).unwrap_or("<r/>")).ok()?;
    let mut pool = Pool::new(vec![d.dom.clone()]);
    match kind {
        // fields: kind, factory, data
        "factory-panics" => {
            let data = f.get(2)?.clone();
            let op = match f.get(1)?.as_str() { "text" => Op::CreateText { d: 0, data }, "comment" => Op::CreateComment { d: 0, data }, "cdata" => Op::CreateCData { d: 0, data }, _ => return None };
            match pool.apply(&op) { Outcome::Panic(p) => Some(format!("{}/dom/{}/hostile-string/panic/{}", prop, op.name(), p)), _ => None }
        }
        // fields: kind, factory, name: a name that is not a Name must give INVALID_CHARACTER
        "bad-name" => {
            let name = f.get(2)?.clone();
            let op = match f.get(1)?.as_str() { "pi" => Op::CreatePI { d: 0, target: name, data: "d".into() }, "entref" => Op::CreateEntRef { d: 0, name }, "element" => Op::CreateElement { d: 0, name }, "attribute" => Op::CreateAttribute { d: 0, name }, _ => return None };
            match pool.apply(&op) { Outcome::Err(E::InvalidCharacter) => None, Outcome::Ok(_) => Some(format!("{}/dom/{}/INVALID_CHARACTER/ok", prop, op.name())), Outcome::Err(e) => Some(format!("{}/dom/{}/INVALID_CHARACTER/{}", prop, op.name(), e.name())), Outcome::Panic(p) => Some(format!("{}/panic/{}", prop, p)) }
        }
        // fields: kind, document, text x, text y: two text nodes appended one after the other to the document element
        "adjacent-text" => {
            let root = (0..pool.h.len()).find(|&i| pool.h[i].kind == K::Element)?;
            for t in [f.get(2)?, f.get(3)?] {
                let i = match pool.apply(&Op::CreateText { d: 0, data: t.clone() }) { Outcome::Ok(Ret::Node(x)) => x.idx, _ => return None };
                match pool.apply(&Op::AppendChild { p: root, c: i }) { Outcome::Ok(_) => {} _ => return None }
            }
            c15_eval(&d.dom).map(|(sig, _)| format!("{}/serial/{}", prop, sig))
        }
        // fields: kind, document whose root element carries other attributes with the same local part, attribute name, value:
        // set_attribute(name) must leave attributes with other (qualified) names alone
        "set-attribute-keeps-others" => {
            let root = (0..pool.h.len()).find(|&i| pool.h[i].kind == K::Element)?;
            let before = d.dom.to_string();
            let (name, value) = (f.get(2)?.clone(), f.get(3)?.clone());
            match pool.apply(&Op::SetAttribute { e: root, name: name.clone(), value }) { Outcome::Ok(_) => {} _ => return None }
            let after = d.dom.to_string();
            // every attribute written with a prefix (or as a declaration) in the original must still be there
            let lost: Vec<&str> = before.split_whitespace().filter(|w| w.contains(":") && w.contains('=')).map(|w| w.split('=').next().unwrap_or("")).filter(|q| !q.is_empty() && *q != name && !after.contains(&format!(" {}=", q))).collect();
            if lost.is_empty() { None } else { Some(format!("{}/dom/set_attribute/ok/effect/other-attribute-removed", prop)) }
        }
        // fields: kind, document with a DOCTYPE that declares an entity the content refers to
        "remove-doctype" => {
            let dt = (0..pool.h.len()).find(|&i| pool.h[i].kind == K::Doctype)?;
            match pool.apply(&Op::RemoveChild { p: 0, o: dt }) { Outcome::Ok(_) => c15_eval(&d.dom).map(|(sig, _)| format!("{}/serial/{}", prop, sig)), _ => None }
        }
        _ => None,
    }
}

#[allow(dead_code)]
fn _unused(_: &Model, _: &Adopt, _: &E, _: Rc<u8>) { let _ = first_diff; }
