//! C01 (accept + infoset), C02 (ill-formed never accepted), C03 (totality of parse/print),
//! C04 (print/parse round trip), C11 (attribute normalisation and defaulting).
use crate::model::*;
use crate::obs;
use crate::refxml;
use crate::rng::Rng;
use crate::shrink;
use crate::util::first_diff;
use crate::{guarded, norm_msg, Caught, Ctx};
use xml_dom::PrettyPrint;

pub const OPT_MERGED: DumpOpt = DumpOpt { merged: true, ns: false, prolog: true, specified: true, reflevel: false };
pub const OPT_RAW: DumpOpt = DumpOpt { merged: false, ns: false, prolog: true, specified: true, reflevel: false };
pub const OPT_REF: DumpOpt = DumpOpt { merged: true, ns: true, prolog: true, specified: false, reflevel: true };

/// generator profile of C01/C04: the stated profile minus the narrow exclusions listed in
/// known_findings.json (each exclusion has a witness that is replayed on every run)
pub fn c01_cfg() -> GenCfg {
    let mut c = GenCfg::full();
    c.literal_cr = true; // literal CR / CRLF (normalised to LF since the fix e41cb81)
    c
}

fn line_kind(diff: &str) -> String {
    // "line N: expected Some("X 1 ...") observed ..." -> X
    for key in ["expected \"", "observed \""] {
        if let Some(p) = diff.find(key) { let rest = &diff[p + key.len()..]; if let Some(c) = rest.chars().next() { if c.is_ascii_uppercase() { return c.to_string(); } } }
    }
    "end".into()
}

pub enum Verdict { Held, Fail(String, String), Inconclusive(String) }

/// steps used by the last guarded xml-rs call
fn with_steps<T>(budget: u64, f: impl FnOnce() -> T) -> (Caught<T>, u64) {
    xml_nom::verif::reset();
    xml_nom::verif::set_budget(budget);
    let r = guarded(f);
    (r, xml_nom::verif::read())
}

/// C01 oracle on one rendering. Returns the failure class (without features) and a detail string.
pub fn c01_eval(doc: &Doc, text: &str) -> Option<(String, String)> {
    for (view, opt) in [("merged", OPT_MERGED), ("raw", OPT_RAW)] {
        let exp = expected_dump(doc, opt);
        match guarded(|| obs::dump_xmlrs(text, opt)) {
            Caught::Panic { file, msg } => return Some((format!("panic/{}/{}", file, norm_msg(&msg)), msg)),
            Caught::Budget(n) => return Some(("steps".into(), format!("{} steps", n))),
            Caught::Ok(Err(e)) => return Some(("reject".into(), e)),
            Caught::Ok(Ok(o)) => {
                if o.rest != 0 { return Some(("rest".into(), format!("{} bytes unconsumed", o.rest))); }
                if o.dump != exp { let d = first_diff(&exp, &o.dump); return Some((format!("infoset-{}/{}", view, line_kind(&d)), d)); }
            }
        }
    }
    None
}

fn sig_features(doc: &Doc) -> String { features(doc).join("+") }

/// libxml2's opinion about the model (validation of O1 by O3); Some(reason) if they disagree
pub fn ref_disagrees(doc: &Doc, text: &str) -> Option<String> {
    let r = refxml::parse(text, true);
    if !r.wf { return Some(format!("libxml2 says not well-formed (err {})", r.err)); }
    let exp = expected_dump(doc, OPT_REF);
    if r.dump != exp { return Some(first_diff(&exp, &r.dump)); }
    None
}

pub fn c01(ctx: &mut Ctx) {
    let n: u64 = if ctx.thorough { 4_000_000 } else { 200_000 };
    let variants = if ctx.thorough { 4 } else { 2 };
    for i in 0..n {
        if !ctx.mine(i) { continue; }
        let mut r = ctx.rng(i);
        let cfg = c01_cfg();
        let doc = { let mut g = Gen::new(&mut r, cfg); g.doc() };
        ctx.begin(i, "");
        for f in features(&doc) { ctx.count(&format!("feature/{}", f)); }
        for v in 0..variants {
            let (d, text) = if v == 0 { (doc.clone(), render(&doc, &mut r, Style { minimal: true })) } else { let d = vary(&doc, &mut r); let t = render(&d, &mut r, Style { minimal: false }); (d, t) };
            if v > 0 { debug_assert_eq!(expected_dump(&d, OPT_MERGED), expected_dump(&doc, OPT_MERGED), "vary() must keep the merged view"); }
            if i % 997 == 0 && v == 1 { ctx.sample(&text); }
            ctx.nontrivial(&text);
            ctx.count("renderings");
            match c01_eval(&d, &text) {
                None => { ctx.count("agree"); }
                Some((class, detail)) => {
                    // second opinion on the model itself before blaming xml-rs
                    if let Some(why) = ref_disagrees(&d, &text) { ctx.inconclusive("oracle_disagreement"); if ctx.notes.len() < 5 { ctx.notes.push(format!("O1/O3 disagree: {} :: {}", why, text)); } continue; }
                    let class0 = class.clone();
                    let mut rr = Rng::new(7);
                    let small = shrink::shrink(&d, &mut |m: &Doc| { let t = render(m, &mut rr, Style { minimal: true }); matches!(c01_eval(m, &t), Some((c, _)) if c == class0) && ref_disagrees(m, &t).is_none() });
                    let st = render(&small, &mut Rng::new(7), Style { minimal: true });
                    let sig = format!("C01/{}/{}", class, sig_features(&small));
                    ctx.violation(i, &sig, &format!("{} :: shrunk witness {}", detail, st), &[("text", &text), ("shrunk", &st)]);
                }
            }
        }
        // O3 validates O1 on every case (not only on failures) so that a wrong model is noticed
        if i % 4 == 0 { let t = render(&doc, &mut r, Style { minimal: false }); match ref_disagrees(&doc, &t) { None => ctx.count("o3_confirms_model"), Some(w) => { ctx.inconclusive("oracle_disagreement"); if ctx.notes.len() < 5 { ctx.notes.push(format!("O1/O3 disagree: {} :: {}", w, t)); } } } }
    }
}

// ---------------------------------------------------------------------------------------------
// C04

/// round-trip oracle on a text the parser accepts; None = held or not applicable
pub fn c04_eval(text: &str) -> Option<(String, String)> {
    let r = guarded(|| -> Result<Option<(String, String)>, String> {
        let (rest, d) = match xml_dom::XmlDocument::from_raw(text) { Ok(x) => x, Err(_) => return Ok(None) };
        if !rest.is_empty() { return Ok(None); }
        let s1 = d.to_string();
        let (rest2, d2) = match xml_dom::XmlDocument::from_raw(&s1) { Ok(x) => x, Err(e) => return Ok(Some(("reparse-fail".into(), format!("{:?} :: printed {}", e, s1)))) };
        if !rest2.is_empty() { return Ok(Some(("reparse-rest".into(), format!("rest {:?} :: printed {}", rest2, s1)))); }
        let o1 = obs::dump_xmlrs(text, OPT_RAW)?;
        let o2 = obs::dump_xmlrs(&s1, OPT_RAW)?;
        if o1.dump != o2.dump { let df = first_diff(&o1.dump, &o2.dump); return Ok(Some((format!("obs-diff/{}", line_kind(&df)), format!("{} :: printed {}", df, s1)))); }
        if d2 != d { return Ok(Some(("not-equal".into(), format!("PartialEq says the re-parsed document differs :: printed {}", s1)))); }
        let s2 = d2.to_string();
        if s2 != s1 { return Ok(Some(("not-fixpoint".into(), format!("first {:?} second {:?}", s1, s2)))); }
        Ok(None)
    });
    match r {
        Caught::Ok(Ok(v)) => v,
        Caught::Ok(Err(e)) => Some(("walker-error".into(), e)),
        Caught::Panic { file, msg } => Some((format!("panic/{}/{}", file, norm_msg(&msg)), msg)),
        Caught::Budget(n) => Some(("steps".into(), n.to_string())),
    }
}

pub fn c04(ctx: &mut Ctx) {
    let n: u64 = if ctx.thorough { 4_000_000 } else { 200_000 };
    for i in 0..n {
        if !ctx.mine(i) { continue; }
        let mut r = ctx.rng(i);
        let mut cfg = c01_cfg();
        cfg.attlist_effective = r.chance(1, 3);
        let doc = { let mut g = Gen::new(&mut r, cfg); g.doc() };
        let doc = if r.chance(1, 2) { vary(&doc, &mut r) } else { doc };
        let text = render(&doc, &mut r, Style { minimal: false });
        ctx.begin(i, "");
        for f in features(&doc) { ctx.count(&format!("feature/{}", f)); }
        if i % 997 == 0 { ctx.sample(&text); }
        ctx.nontrivial(&text);
        match guarded(|| xml_dom::XmlDocument::from_raw(&text).map(|x| x.0.is_empty()).unwrap_or(false)) { Caught::Ok(true) => ctx.count("accepted"), _ => { ctx.count("not-accepted"); continue; } }
        if let Some((class, detail)) = c04_eval(&text) {
            let class0 = class.clone();
            let mut rr = Rng::new(7);
            let small = shrink::shrink(&doc, &mut |m: &Doc| { let t = render(m, &mut rr, Style { minimal: true }); matches!(c04_eval(&t), Some((c, _)) if c == class0) });
            let st = render(&small, &mut Rng::new(7), Style { minimal: true });
            ctx.violation(i, &format!("C04/{}/{}", class, sig_features(&small)), &format!("{} :: shrunk witness {}", detail, st), &[("text", &text), ("shrunk", &st)]);
        } else { ctx.count("roundtrip-ok"); }
        // accepted mutants (accepted != well-formed: the property quantifies over what the parser accepts)
        if i % 2 == 0 {
            let toks = render_tokens(&doc, &mut r, Style { minimal: false });
            let (m, _) = blind_edit(&toks, &mut r);
            if let Caught::Ok(true) = guarded(|| xml_dom::XmlDocument::from_raw(&m).map(|x| x.0.is_empty()).unwrap_or(false)) {
                ctx.count("accepted-mutant");
                if let Some((class, detail)) = c04_eval(&m) { ctx.violation(i, &format!("C04/{}/mutant", class), &detail, &[("text", &m)]); }
            }
        }
    }
}

// ---------------------------------------------------------------------------------------------
// C02: operators that make a rendering ill-formed by construction

pub const OPERATORS: &[&str] = &[
    "etag-mismatch", "etag-missing", "etag-extra", "overlap", "attr-dup", "attr-noquote", "attr-lt", "attr-amp", "attr-noeq", "attr-nows",
    "elem-name-start", "attr-name-start", "pi-target-start", "entity-name-start", "char-illegal-text", "char-illegal-attr", "char-illegal-comment",
    "char-illegal-pi", "char-illegal-cdata", "charref-zero", "charref-nonchar", "charref-surrogate", "charref-huge", "charref-empty", "charref-nosemi",
    "content-lt", "content-amp", "comment-dashdash", "comment-dash-end", "cdata-end-in-text", "entity-undeclared", "entity-undeclared-attr",
    "root-missing", "root-multiple", "text-after-root", "text-before-root", "xmldecl-misplaced", "xmldecl-dup", "xmldecl-version", "xmldecl-order",
    "xmldecl-noversion", "pi-reserved", "pi-reserved-case", "doctype-dup", "doctype-after-root", "pi-unclosed", "comment-unclosed", "cdata-unclosed",
    "cdata-outside-root", "attr-entity-lt", "entity-recursive", "entity-unparsed-ref", "entity-external-attr", "empty-document", "etag-attr",
    "entity-value-lt-ref", "entity-amp-ref", "entity-amp-attr", "entity-charref-illegal", "entity-hidden-recursion", "entity-dup-first-binds", "attr-dup-lookalike", "entity-cdata-end-content", "stag-unclosed", "attr-value-unquoted-end", "doctype-noname", "name-empty",
];

fn find_kind(toks: &[Tok], k: TK, r: &mut Rng) -> Option<usize> {
    let v: Vec<usize> = toks.iter().enumerate().filter(|(_, t)| t.k == k).map(|(i, _)| i).collect();
    if v.is_empty() { None } else { Some(*r.pick(&v)) }
}
fn root_open(toks: &[Tok]) -> usize { toks.iter().position(|t| t.k == TK::STagOpen).unwrap() }
/// index just after the root element's last token
fn root_end(toks: &[Tok]) -> usize {
    let mut depth = 0i32;
    for (i, t) in toks.iter().enumerate() {
        match t.k { TK::STagOpen => depth += 1, TK::EmptyClose | TK::ETag => { depth -= 1; if depth == 0 { return i + 1; } } _ => {} }
    }
    toks.len()
}
fn tok(k: TK, s: &str) -> Tok { Tok { k, s: s.to_string() } }

/// apply operator `op`; None if the document offers no site for it
pub fn apply_operator(op: &str, toks: &[Tok], r: &mut Rng) -> Option<String> {
    let mut t: Vec<Tok> = toks.to_vec();
    let ro = root_open(&t);
    let re = root_end(&t);
    // first content position inside the root (after its start tag), if the root has content
    let root_content = { let mut j = ro; while j < t.len() && !matches!(t[j].k, TK::STagClose | TK::EmptyClose) { j += 1; } if j < t.len() && t[j].k == TK::STagClose { Some(j + 1) } else { None } };
    let content_site = |t: &Vec<Tok>, r: &mut Rng| -> Option<usize> {
        // a position between two content tokens inside the root
        let v: Vec<usize> = (ro..re).filter(|&j| matches!(t[j].k, TK::STagClose)).map(|j| j + 1).collect();
        if v.is_empty() { None } else { Some(*r.pick(&v)) }
    };
    match op {
        "etag-mismatch" => { let i = find_kind(&t, TK::ETag, r)?; let s = &t[i].s; let end = s.find(|c: char| c == '>' || c.is_whitespace()).unwrap(); t[i].s = format!("{}x{}", &s[..end], &s[end..]); }
        "etag-missing" => { let i = find_kind(&t, TK::ETag, r)?; t.remove(i); }
        "etag-extra" => { t.insert(re, tok(TK::ETag, "</a>")); }
        "overlap" => {
            // <p>..<c>..</c></p> -> <p>..<c>..</p></c> : need two adjacent end tags with different names
            let v: Vec<usize> = (0..t.len().saturating_sub(1)).filter(|&j| t[j].k == TK::ETag && t[j + 1].k == TK::ETag && t[j].s.trim_end_matches('>').trim() != t[j + 1].s.trim_end_matches('>').trim()).collect();
            if v.is_empty() { return None; }
            let i = *r.pick(&v); t.swap(i, i + 1);
        }
        "attr-dup" => { let i = find_kind(&t, TK::AttrName, r)?; let name = t[i].s.clone(); t.insert(i + 3, tok(TK::AttrValue, "\"d\"")); t.insert(i + 3, tok(TK::AttrEq, "=")); t.insert(i + 3, tok(TK::AttrName, &name)); t.insert(i + 3, tok(TK::AttrWs, " ")); }
        "attr-noquote" => { let i = find_kind(&t, TK::AttrValue, r)?; t[i].s = "v".into(); }
        "attr-lt" => { let i = find_kind(&t, TK::AttrValue, r)?; let q = t[i].s.chars().next().unwrap(); t[i].s = format!("{}a<b{}", q, q); }
        "attr-amp" => { let i = find_kind(&t, TK::AttrValue, r)?; let q = t[i].s.chars().next().unwrap(); t[i].s = format!("{}a & b{}", q, q); }
        "attr-noeq" => { let i = find_kind(&t, TK::AttrEq, r)?; t[i].s = " ".into(); }
        "attr-nows" => { let v: Vec<usize> = (0..t.len()).filter(|&j| t[j].k == TK::AttrWs && j > 0 && t[j - 1].k == TK::AttrValue).collect(); if v.is_empty() { return None; } let i = *r.pick(&v); t[i].s = String::new(); }
        "elem-name-start" => {
            // start tag and its end tag get the same illegal name
            let opens: Vec<usize> = (0..t.len()).filter(|&j| t[j].k == TK::STagOpen).collect();
            let i = *r.pick(&opens);
            let bad = r.pick_s(&["1a", "-a", ".a", "\u{b7}a", "\u{300}a"]);
            let mut depth = 0; let mut close = None;
            for j in i..t.len() { match t[j].k { TK::STagOpen => depth += 1, TK::EmptyClose => { depth -= 1; if depth == 0 { break; } } TK::ETag => { depth -= 1; if depth == 0 { close = Some(j); break; } } _ => {} } }
            t[i].s = format!("<{}", bad);
            if let Some(c) = close { t[c].s = format!("</{}>", bad); }
        }
        "attr-name-start" => { let i = find_kind(&t, TK::AttrName, r)?; t[i].s = r.pick_s(&["1a", "-a", ".b", "\u{b7}"]).to_string(); }
        "pi-target-start" => { let i = content_site(&t, r).unwrap_or(re); t.insert(i, tok(TK::PI, r.pick_s(&["<?1a?>", "<?-x y?>", "<?.p?>"]))); }
        "entity-name-start" => { let i = find_kind(&t, TK::SubsetOpen, r)?; t.insert(i + 1, tok(TK::DeclEntity, r.pick_s(&["<!ENTITY 1e \"v\">", "<!ENTITY -e \"v\">"]))); }
        "char-illegal-text" => { let i = content_site(&t, r)?; t.insert(i, tok(TK::Text, r.pick_s(&["a\u{1}b", "\u{b}", "x\u{ffff}", "\u{fffe}", "\u{0}", "\u{1f}"]))); }
        "char-illegal-attr" => { let i = find_kind(&t, TK::AttrValue, r)?; let q = t[i].s.chars().next().unwrap(); t[i].s = format!("{}a{}b{}", q, r.pick_s(&["\u{1}", "\u{c}", "\u{ffff}", "\u{0}"]), q); }
        "char-illegal-comment" => { let i = content_site(&t, r).unwrap_or(re); t.insert(i, tok(TK::Comment, &format!("<!--a{}b-->", r.pick_s(&["\u{1}", "\u{ffff}", "\u{8}"])))); }
        "char-illegal-pi" => { let i = content_site(&t, r).unwrap_or(re); t.insert(i, tok(TK::PI, &format!("<?pi a{}b?>", r.pick_s(&["\u{1}", "\u{fffe}", "\u{e}"])))); }
        "char-illegal-cdata" => { let i = content_site(&t, r)?; t.insert(i, tok(TK::CData, &format!("<![CDATA[a{}b]]>", r.pick_s(&["\u{1}", "\u{ffff}", "\u{1b}"])))); }
        "charref-zero" => { let i = content_site(&t, r)?; t.insert(i, tok(TK::CharRef, r.pick_s(&["&#0;", "&#x0;", "&#00;"]))); }
        "charref-nonchar" => { let i = content_site(&t, r)?; t.insert(i, tok(TK::CharRef, r.pick_s(&["&#1;", "&#x1F;", "&#xFFFE;", "&#65535;", "&#11;"]))); }
        "charref-surrogate" => { let i = content_site(&t, r)?; t.insert(i, tok(TK::CharRef, r.pick_s(&["&#xD800;", "&#xDFFF;", "&#55296;"]))); }
        "charref-huge" => { let i = content_site(&t, r)?; t.insert(i, tok(TK::CharRef, r.pick_s(&["&#x110000;", "&#1114112;", "&#99999999999999999999;", "&#xFFFFFFFFF;"]))); }
        "charref-empty" => { let i = content_site(&t, r)?; t.insert(i, tok(TK::CharRef, r.pick_s(&["&#;", "&#x;", "&#xg;", "&# 32;", "&#-1;"]))); }
        "charref-nosemi" => { let i = content_site(&t, r)?; t.insert(i, tok(TK::Text, r.pick_s(&["&#32 ", "&#x20 z", "&amp z"]))); }
        "content-lt" => { let i = content_site(&t, r)?; t.insert(i, tok(TK::Text, r.pick_s(&["a < b", "<", "< a>", "<>"]))); }
        "content-amp" => { let i = content_site(&t, r)?; t.insert(i, tok(TK::Text, r.pick_s(&["a & b", "&", "&;", "& amp;"]))); }
        "comment-dashdash" => { let i = content_site(&t, r).unwrap_or(re); t.insert(i, tok(TK::Comment, r.pick_s(&["<!--a--b-->", "<!----->", "<!-- -- -->"]))); }
        "comment-dash-end" => { let i = content_site(&t, r).unwrap_or(re); t.insert(i, tok(TK::Comment, r.pick_s(&["<!--a--->", "<!--->"]))); }
        "cdata-end-in-text" => { let i = content_site(&t, r)?; t.insert(i, tok(TK::Text, r.pick_s(&["a]]>b", "]]>", "]]]>"]))); }
        "entity-undeclared" => { let i = content_site(&t, r)?; t.insert(i, tok(TK::EntRef, "&nope;")); }
        "entity-undeclared-attr" => { let i = find_kind(&t, TK::AttrValue, r)?; let q = t[i].s.chars().next().unwrap(); t[i].s = format!("{}&nope;{}", q, q); }
        "root-missing" => { t.drain(ro..re); }
        "root-multiple" => { t.insert(re, tok(TK::STagOpen, "<second/>")); }
        "text-after-root" => { t.insert(re, tok(TK::Text, r.pick_s(&["x", " x", "&#32;", "&amp;"]))); }
        "text-before-root" => { t.insert(ro, tok(TK::Text, r.pick_s(&["x", "x ", "&#32;"]))); }
        "xmldecl-misplaced" => {
            if t[0].k == TK::XmlDecl { t.insert(0, tok(TK::Ws, r.pick_s(&[" ", "\n", "<!--c-->"]))); } else { t.insert(0, tok(TK::XmlDecl, "<?xml version=\"1.0\"?>")); t.insert(0, tok(TK::Ws, r.pick_s(&[" ", "\n", "<!--c-->"]))); }
        }
        "xmldecl-dup" => { if t[0].k != TK::XmlDecl { t.insert(0, tok(TK::XmlDecl, "<?xml version=\"1.0\"?>")); } t.insert(1, tok(TK::XmlDecl, "<?xml version=\"1.0\"?>")); }
        "xmldecl-version" => { let d = tok(TK::XmlDecl, r.pick_s(&["<?xml version=\"2.0\"?>", "<?xml version=\"1\"?>", "<?xml version=\"\"?>", "<?xml version=\"1.0a\"?>", "<?xml version=1.0?>"])); if t[0].k == TK::XmlDecl { t[0] = d; } else { t.insert(0, d); } }
        "xmldecl-order" => { let d = tok(TK::XmlDecl, r.pick_s(&["<?xml version=\"1.0\" standalone=\"yes\" encoding=\"UTF-8\"?>", "<?xml encoding=\"UTF-8\" version=\"1.0\"?>", "<?xml version=\"1.0\" standalone=\"maybe\"?>", "<?xml version=\"1.0\" encoding=\"\"?>", "<?xml version=\"1.0\" encoding=\"8utf\"?>", "<?xml version=\"1.0\"encoding=\"UTF-8\"?>"])); if t[0].k == TK::XmlDecl { t[0] = d; } else { t.insert(0, d); } }
        "xmldecl-noversion" => { let d = tok(TK::XmlDecl, r.pick_s(&["<?xml?>", "<?xml encoding=\"UTF-8\"?>", "<?xml standalone=\"yes\"?>", "<?xml ?>"])); if t[0].k == TK::XmlDecl { t[0] = d; } else { t.insert(0, d); } }
        "pi-reserved" => { let i = content_site(&t, r).unwrap_or(re); t.insert(i, tok(TK::PI, r.pick_s(&["<?xml ?>", "<?xml version=\"1.0\"?>", "<?xml?>", "<?xml a?>"]))); }
        "pi-reserved-case" => { let i = content_site(&t, r).unwrap_or(re); t.insert(i, tok(TK::PI, r.pick_s(&["<?XML ?>", "<?Xml a?>", "<?xmL?>", "<?XmL x?>"]))); }
        "doctype-dup" => { let i = find_kind(&t, TK::DoctypeClose, r)?; t.insert(i + 1, tok(TK::DoctypeOpen, "<!DOCTYPE a>")); }
        "doctype-after-root" => { t.insert(re, tok(TK::DoctypeOpen, "<!DOCTYPE a>")); }
        "pi-unclosed" => { t.truncate(re); t.push(tok(TK::PI, "<?pi data")); }
        "comment-unclosed" => { let i = content_site(&t, r).unwrap_or(re); t.insert(i, tok(TK::Comment, "<!-- c")); for x in t.iter_mut().skip(i + 1) { if x.k == TK::Comment { x.s = x.s.replace("-->", "- ->"); } } }
        "cdata-unclosed" => { let i = content_site(&t, r)?; t.insert(i, tok(TK::CData, "<![CDATA[ c")); for x in t.iter_mut().skip(i + 1) { if x.s.contains("]]>") { x.s = x.s.replace("]]>", "]] >"); } } }
        "cdata-outside-root" => { let at = if r.chance(1, 2) { re } else { ro }; t.insert(at, tok(TK::CData, "<![CDATA[x]]>")); }
        "attr-entity-lt" => { let i = find_kind(&t, TK::AttrValue, r)?; let q = t[i].s.chars().next().unwrap(); t[i].s = format!("{}&zlt;{}", q, q); return Some(with_decl(&t, "<!ENTITY zlt \"a&#60;b\">")); }
        "entity-recursive" => { let i = content_site(&t, r)?; t.insert(i, tok(TK::EntRef, "&zr1;")); return Some(with_decl(&t, r.pick_s(&["<!ENTITY zr1 \"&zr2;\"><!ENTITY zr2 \"x&zr1;\">", "<!ENTITY zr1 \"&zr2;\"><!ENTITY zr2 \"&zr3;\"><!ENTITY zr3 \"&zr2;\">", "<!ENTITY zr1 \"a&zr2;\"><!ENTITY zr2 \"&zr2;\">", "<!ENTITY zr1 \"&zr1;\">",
            // cycles through a re-declared predefined name
            "<!ENTITY amp \"&amp;\"><!ENTITY zr1 \"x&amp;y\">", "<!ENTITY lt \"&#38;lt;\"><!ENTITY zr1 \"&lt;\">", "<!ENTITY zr1 \" &amp; \"><!ENTITY amp \"&zr1;\">", "<!ENTITY gt \"&lt;\"><!ENTITY lt \"&gt;\"><!ENTITY zr1 \"&gt;\">"]))); }
        "entity-unparsed-ref" => { let i = content_site(&t, r)?; t.insert(i, tok(TK::EntRef, "&zun;")); return Some(with_decl(&t, "<!NOTATION zn SYSTEM \"n\"><!ENTITY zun SYSTEM \"u.bin\" NDATA zn>")); }
        "entity-external-attr" => { let i = find_kind(&t, TK::AttrValue, r)?; let q = t[i].s.chars().next().unwrap(); t[i].s = format!("{}&zex;{}", q, q); return Some(with_decl(&t, "<!ENTITY zex SYSTEM \"e.xml\">")); }
        "empty-document" => { return Some(r.pick_s(&["", " ", "\n", "<?xml version=\"1.0\"?>", "<!--c-->", "<!DOCTYPE a>"]).to_string()); }
        "etag-attr" => { let i = find_kind(&t, TK::ETag, r)?; let s = t[i].s.clone(); t[i].s = format!("{} a=\"1\">", s.trim_end_matches('>').trim_end()); }
        "entity-value-lt-ref" => { let i = content_site(&t, r)?; t.insert(i, tok(TK::EntRef, "&zm;")); return Some(with_decl(&t, "<!ENTITY zm \"<q>\">")); }
        "entity-amp-ref" => { let i = content_site(&t, r)?; t.insert(i, tok(TK::EntRef, "&zam;")); return Some(with_decl(&t, r.pick_s(&["<!ENTITY zam \"a&#38;b\">", "<!ENTITY zam \"&#x26;\">", "<!ENTITY zam \"x&#38;amp y\">", "<!ENTITY zam \"&#38;#;\">", "<!ENTITY zam \"&#38;#x;\">", "<!ENTITY zam \"&#38;a b;\">",
            // a long tail with multi-byte characters after the stray ampersand (whatever the error report quotes must not be cut inside a character)
            "<!ENTITY zam \"R&#38;D \u{7814}\u{7a76}\u{958b}\u{767a}\u{30bb}\u{30f3}\u{30bf}\u{30fc}\u{6771}\u{4eac}\u{672c}\u{793e}\u{30d3}\u{30eb}\u{30c7}\u{30a3}\u{30f3}\u{30b0}\">", "<!ENTITY zam \"ab&#38;\u{e9}\u{e9}\u{e9}\u{e9}\u{e9}\u{e9}\u{e9}\u{e9}\u{e9}\u{e9}\u{e9}\u{e9}\u{e9}\u{e9}\u{e9}\u{e9}\u{e9}\u{e9}\u{e9}\u{e9}\">", "<!ENTITY zam \"&#38;\u{1d4b3}\u{1d4b3}\u{1d4b3}\u{1d4b3}\u{1d4b3}\u{1d4b3}\u{1d4b3}\u{1d4b3}\u{1d4b3}\u{1d4b3}x\">", "<!ENTITY zam \"a&#38;#x110000;\u{540d}\u{540d}\u{540d}\u{540d}\u{540d}\u{540d}\u{540d}\u{540d}\u{540d}\u{540d}\u{540d}\u{540d}\">"]))); }
        "entity-amp-attr" => { let i = find_kind(&t, TK::AttrValue, r)?; let q = t[i].s.chars().next().unwrap(); t[i].s = format!("{}&zaa;{}", q, q); return Some(with_decl(&t, r.pick_s(&["<!ENTITY zaa \"a&#38;b\">", "<!ENTITY zaa \"&#38;#1;\">", "<!ENTITY zaa \"&#x26;\">"]))); }
        "entity-charref-illegal" => { let i = content_site(&t, r)?; t.insert(i, tok(TK::EntRef, "&zci;")); return Some(with_decl(&t, r.pick_s(&["<!ENTITY zci \"a&#38;#23;\">", "<!ENTITY zci \"&#38;#x0;\">", "<!ENTITY zci \"&#38;#xFFFE;\">", "<!ENTITY zci \"&#38;#xD800;\">", "<!ENTITY zci \"&#38;#x110000;\">"]))); }
        "entity-hidden-recursion" => { let i = content_site(&t, r)?; t.insert(i, tok(TK::EntRef, "&zh1;")); return Some(with_decl(&t, r.pick_s(&["<!ENTITY zh1 \"&#38;zh1;\">", "<!ENTITY zh1 \"&zh2;\"><!ENTITY zh2 \"x&#38;zh1;\">", "<!ENTITY zh1 \"&#x26;zh2;\"><!ENTITY zh2 \"&#38;zh1;\">"]))); }
        // the first declaration of an entity binds (4.2): a harmless later one must not hide the faulty first one
        "entity-dup-first-binds" => { let i = content_site(&t, r)?; t.insert(i, tok(TK::EntRef, "&zdd;")); return Some(with_decl(&t, r.pick_s(&["<!ENTITY zdd \"a&#38;b\"><!ENTITY zdd \"fine\">", "<!ENTITY zdd \"&zdd;\"><!ENTITY zdd \"fine\">", "<!ENTITY zdd SYSTEM \"u.bin\" NDATA zn><!NOTATION zn SYSTEM \"n\"><!ENTITY zdd \"fine\">", "<!ENTITY zdd \"&#38;#1;\"><!ENTITY zdd \"fine\"><!ENTITY zdd \"x\">"]))); }
        // a repeated attribute name with an attribute of the same local part (other prefix, or a declaration of that prefix) in between
        "attr-dup-lookalike" => { let i = find_kind(&t, TK::STagOpen, r)?; let v = r.pick_s(&[" zp:zq='1' zq='2' zp:zq='3' xmlns:zp='urn:z'", " zq='1' zp:zq='2' zq='3' xmlns:zp='urn:z'", " xmlns:zq='urn:u' zq='1' xmlns:zq='urn:v'", " zq='1' xmlns:zq='urn:u' zr='2' zq='3'", " xmlns:zp='urn:z' zp:zq='1' zr:zq='2' zp:zq='3' xmlns:zr='urn:y'"]); t[i].s = format!("{}{}", t[i].s, v); }
        // "]]>" is not character data, also when it arrives through the replacement text of an entity (in an attribute value it is fine)
        "entity-cdata-end-content" => { let i = content_site(&t, r)?; t.insert(i, tok(TK::EntRef, "&zce;")); return Some(with_decl(&t, r.pick_s(&["<!ENTITY zce \"a]]&#62;b\">", "<!ENTITY zce \"]]>\"><!ENTITY zcf \"x\">", "<!ENTITY zcg \"&#93;]>\"><!ENTITY zce \"u&zcg;v\">", "<!ENTITY zce \"&#x5D;&#x5D;&#x3E;\">"]))); }
        "stag-unclosed" => { let i = find_kind(&t, TK::STagClose, r)?; t[i].s = String::new(); if i + 1 < t.len() && t[i + 1].k == TK::Text { t[i + 1].s = format!("<b/>{}", t[i + 1].s.replace('>', "")); } else { t.insert(i + 1, tok(TK::Text, "<b/>")); } }
        "attr-value-unquoted-end" => { let i = find_kind(&t, TK::AttrValue, r)?; let q = t[i].s.chars().next().unwrap(); let other = if q == '"' { '\'' } else { '"' }; t[i].s = format!("{}v{}", q, other); for x in t.iter_mut().skip(i + 1) { x.s = x.s.replace(q, ""); } }
        "elem-name-colon2" => { let _ = root_content; return Some(r.pick_s(&["<a:b:c xmlns:a=\"u\"/>", "<:a/>", "<a:/>", "<a xmlns:p=\"u\" p::x=\"1\"/>", "<a :x=\"1\"/>"]).to_string()); }
        "name-empty" => { let i = content_site(&t, r).unwrap_or(re); t.insert(i, tok(TK::PI, r.pick_s(&["<? a?>", "<??>", "<? ?>"]))); }
        "doctype-noname" => { return Some(r.pick_s(&["<!DOCTYPE><a/>", "<!DOCTYPE [<!ENTITY e \"v\">]><a/>", "<!DOCTYPEa><a/>", "<!doctype a><a/>", "<!DOCTYPE a SYSTEM><a/>", "<!DOCTYPE a PUBLIC \"p\"><a/>", "<!DOCTYPE a PUBLIC \"{\" \"s\"><a/>"]).to_string()); }
        _ => return None,
    }
    Some(join(&t))
}

/// add declarations to the internal subset (creating a DOCTYPE if necessary)
fn with_decl(t: &[Tok], decl: &str) -> String {
    let mut t = t.to_vec();
    if let Some(i) = t.iter().position(|x| x.k == TK::SubsetOpen) { t.insert(i + 1, tok(TK::DeclEntity, decl)); }
    else if let Some(i) = t.iter().position(|x| x.k == TK::DoctypeClose) { t.insert(i, tok(TK::SubsetClose, "]")); t.insert(i, tok(TK::DeclEntity, decl)); t.insert(i, tok(TK::SubsetOpen, "[")); }
    else { let ro = root_open(&t); t.insert(ro, tok(TK::DoctypeClose, ">")); t.insert(ro, tok(TK::SubsetClose, "]")); t.insert(ro, tok(TK::DeclEntity, decl)); t.insert(ro, tok(TK::SubsetOpen, "[")); t.insert(ro, tok(TK::DoctypeOpen, "<!DOCTYPE a ")); }
    join(&t)
}

const EDIT_ALPHABET: &[&str] = &["<", ">", "&", ";", "\"", "'", "/", "?", "!", "-", "[", "]", "=", " ", "#", "x", ":", "a", "1", "%", "\u{e9}", "\u{1}", "--", "]]>", "<!", "</", "/>", "<?", "?>", "&#", "<a>", "</a>"];

/// a blind token- or byte-level edit; returns (text, kind of the token that was hit)
pub fn blind_edit(toks: &[Tok], r: &mut Rng) -> (String, TK) {
    let mut t = toks.to_vec();
    let i = r.below(t.len());
    let k = t[i].k;
    match r.below(7) {
        0 => { t.remove(i); }
        1 => { let x = t[i].clone(); t.insert(i, x); }
        2 => { let j = r.below(t.len()); t.swap(i, j); }
        3 => { let x = tok(TK::Text, r.pick_s(EDIT_ALPHABET)); t.insert(i, x); }
        _ => {
            // character-level edit inside the token
            let cs: Vec<char> = t[i].s.chars().collect();
            if cs.is_empty() { t[i].s = r.pick_s(EDIT_ALPHABET).to_string(); }
            else {
                let p = r.below(cs.len());
                let mut s: String = cs[..p].iter().collect();
                match r.below(3) { 0 => {} 1 => { s.push_str(r.pick_s(EDIT_ALPHABET)); s.push(cs[p]); } _ => { s.push_str(r.pick_s(EDIT_ALPHABET)); } }
                s.extend(cs[p + 1..].iter());
                t[i].s = s;
            }
        }
    }
    (join(&t), k)
}

/// does xml-rs report `text` as a completely parsed document? Err = panic signature
pub fn xmlrs_accepts(text: &str) -> Result<bool, String> {
    match guarded(|| match xml_dom::XmlDocument::from_raw(text) { Ok((rest, _)) => rest.is_empty(), Err(_) => false }) {
        Caught::Ok(b) => Ok(b),
        Caught::Panic { file, msg } => Err(format!("panic/{}/{}", file, norm_msg(&msg))),
        Caught::Budget(_) => Err("steps".into()),
    }
}

/// outside the profile whose accept/reject verdict the references can decide
fn out_of_profile(text: &str) -> bool {
    // another encoding than UTF-8 declared: a different character stream
    if let Some(p) = text.find("encoding") { let tail: String = text[p..].chars().take(30).collect::<String>().to_ascii_lowercase(); if !tail.contains("utf-8") { return true; } }
    false
}

pub fn c02(ctx: &mut Ctx) {
    let n: u64 = if ctx.thorough { 8_000_000 } else { 500_000 };
    for i in 0..n {
        if !ctx.mine(i) { continue; }
        let mut r = ctx.rng(i);
        let cfg = c01_cfg();
        let doc = { let mut g = Gen::new(&mut r, cfg); g.doc() };
        let minimal = r.chance(1, 3);
        let toks = render_tokens(&doc, &mut r, Style { minimal });
        ctx.begin(i, "");
        // (i) a semantic operator: ill-formed by construction (and confirmed by both references)
        let op = OPERATORS[(i as usize / 1) % OPERATORS.len()];
        if let Some(text) = apply_operator(op, &toks, &mut r) {
            ctx.count(&format!("op/{}", op));
            ctx.nontrivial(&text);
            if i % 1499 == 0 { ctx.sample(&format!("[{}] {}", op, text)); }
            let lx = refxml::parse(&text, false);
            if lx.wf { ctx.inconclusive("operator_not_confirmed_by_libxml2"); if ctx.notes.len() < 8 { ctx.notes.push(format!("libxml2 accepts [{}] {}", op, text)); } }
            else {
                match xmlrs_accepts(&text) {
                    Ok(true) => {
                        // the operator's own site may have been swallowed by a construct that only a recorded finding lets through
                        // (e.g. "<" in front of text "?1 x" forms a PI with target "1"): same explanation rule as for blind edits
                        let own = matches!(op, "pi-target-start" | "entity-name-start" | "attr-entity-lt" | "entity-value-lt-ref");
                        let sig = match explain_blind(&text) { Some(e) if !own => format!("C02/accept/blind-explained/{}", e), _ => format!("C02/accept/{}", op) };
                        ctx.violation(i, &sig, &format!("accepted with empty rest: {}", text), &[("text", &text), ("op", op)])
                    }
                    Ok(false) => ctx.count("rejected"),
                    Err(_) => ctx.count("rejected-by-panic"),
                }
            }
        } else { ctx.count("op-no-site"); }
        // (ii) blind edits judged by libxml2 and expat together. expat implements the name rules of older
        // editions, so these documents use ASCII names only (otherwise expat's verdict carries no information).
        let doc = { let mut c2 = c01_cfg(); c2.nonascii = false; let mut g = Gen::new(&mut r, c2); g.doc() };
        let toks = render_tokens(&doc, &mut r, Style { minimal });
        if refxml::expat_wf(&join(&toks)) != Some(true) { ctx.inconclusive("expat_rejects_unedited_rendering"); continue; }
        let k = if ctx.thorough { 3 } else { 2 };
        for _ in 0..k {
            let (text, kind) = blind_edit(&toks, &mut r);
            let (text, kind) = if r.chance(1, 3) { let t2 = crate::model::render_tokens(&doc, &mut Rng::new(r.next()), Style { minimal: true }); let _ = t2; let (t3, k3) = blind_edit(&tokenize_text(&text), &mut r); (t3, k3) } else { (text, kind) };
            ctx.count("blind");
            if out_of_profile(&text) { ctx.count("blind/out-of-profile"); continue; }
            let lx = refxml::parse(&text, false);
            let ex = refxml::expat_wf(&text);
            ctx.nontrivial(&text);
            if lx.wf && ex == Some(true) { ctx.count("blind/still-wf"); continue; }
            if lx.wf || ex != Some(false) { ctx.inconclusive("references_disagree_on_wf"); continue; }
            ctx.count("blind/ill-formed");
            match xmlrs_accepts(&text) {
                Ok(true) => {
                    // is the acceptance explained exactly by a recorded finding? (repair that zone only and ask the references again)
                    let sig = match explain_blind(&text) { Some(e) => format!("C02/accept/blind-explained/{}", e), None => format!("C02/accept/blind/err{}/{:?}", lx.err, kind) };
                    ctx.violation(i, &sig, &format!("accepted with empty rest: {}", text), &[("text", &text)])
                }
                Ok(false) => ctx.count("rejected"),
                Err(_) => ctx.count("rejected-by-panic"),
            }
        }
    }
}

/// Repair the zone of a recorded finding and nothing else; if the repaired text is well-formed for both
/// references, the acceptance of the original is explained by that finding alone.
pub fn explain_blind(text: &str) -> Option<&'static str> {
    // finding "Name start character not enforced for PI targets, entity names and notation names"
    let cs: Vec<char> = text.chars().collect();
    let mut out = String::new();
    let mut changed = false;
    let mut i = 0;
    let bad = |c: char| crate::spec::is_name_char(c) && !crate::spec::is_name_start(c);
    let lead = |out: &str| -> bool {
        let t = out.trim_end_matches(|c: char| c == ' ' || c == '\t' || c == '\n' || c == '\r');
        let had_ws = t.len() != out.len();
        // ... and the names listed in a NOTATION attribute type: NOTATION ( name | name )
        let in_notation_group = (t.ends_with('(') || t.ends_with('|')) && t.rfind('<').map(|p| t[p..].contains("NOTATION") && t[p..].starts_with("<!ATTLIST")).unwrap_or(false);
        out.ends_with('&') || in_notation_group || (had_ws && (t.ends_with("<!ENTITY") || t.ends_with("<!NOTATION") || t.ends_with("NDATA")))
    };
    let starts = |i: usize, pat: &str| -> bool { let p: Vec<char> = pat.chars().collect(); i + p.len() <= cs.len() && cs[i..i + p.len()] == p[..] };
    let find_from = |i: usize, pat: &str| -> Option<usize> { let p: Vec<char> = pat.chars().collect(); (i..cs.len().saturating_sub(p.len() - 1)).find(|&j| cs[j..j + p.len()] == p[..]) };
    // inside the quoted literals of a markup declaration "<?", "<!--" and "<![CDATA[" are just characters
    let mut in_decl = false;
    let mut in_literal: Option<char> = None;
    while i < cs.len() {
        if let Some(q) = in_literal {
            let c = cs[i];
            if c == q { in_literal = None; }
            if bad(c) && lead(&out) { out.push('n'); changed = true; } else { out.push(c); }
            i += 1; continue;
        }
        if starts(i, "<!ENTITY") || starts(i, "<!ATTLIST") || starts(i, "<!NOTATION") { in_decl = true; }
        else if in_decl && (cs[i] == '"' || cs[i] == '\'') { in_literal = Some(cs[i]); out.push(cs[i]); i += 1; continue; }
        else if in_decl && cs[i] == '>' { in_decl = false; }
        // comments, CDATA sections and PI data are copied verbatim
        if starts(i, "<!--") { let e = find_from(i + 4, "-->").map(|e| e + 3).unwrap_or(cs.len()); out.extend(cs[i..e].iter()); i = e; continue; }
        if starts(i, "<![CDATA[") { let e = find_from(i + 9, "]]>").map(|e| e + 3).unwrap_or(cs.len()); out.extend(cs[i..e].iter()); i = e; continue; }
        if starts(i, "<?") {
            out.push_str("<?"); i += 2;
            if i < cs.len() && bad(cs[i]) { out.push('n'); changed = true; i += 1; }
            let e = find_from(i, "?>").map(|e| e + 2).unwrap_or(cs.len());
            out.extend(cs[i..e].iter()); i = e; continue;
        }
        let c = cs[i];
        if bad(c) && lead(&out) { out.push('n'); changed = true; } else { out.push(c); }
        i += 1;
    }
    // "well-formed again" = the references no longer agree that it is ill-formed (a violation needs both of them; libxml2 also
    // reports a few non-fatal errors, e.g. a fragment identifier in a system literal, as not well-formed)
    let repaired_ok = |t: &str| -> bool { refxml::parse(t, false).wf || refxml::expat_wf(t) == Some(true) };
    if changed && repaired_ok(&out) { return Some("name-start"); }
    // finding "'<' that reaches an attribute value or content through an entity's replacement text is not detected"
    if let Some(rep) = repair_entity_lt(text) { if repaired_ok(&rep) { return Some("entity-lt"); } }
    // both findings in one text: each repair alone leaves the other defect's zone
    if changed { if let Some(rep) = repair_entity_lt(&out) { if repaired_ok(&rep) { return Some("name-start+entity-lt"); } } }
    None
}

/// replace '<' (literal or as a character reference) inside entity value literals by 'x'
fn repair_entity_lt(text: &str) -> Option<String> {
    let mut out = String::new();
    let mut rest = text;
    let mut changed = false;
    while let Some(p) = rest.find("<!ENTITY") {
        out.push_str(&rest[..p + 8]);
        rest = &rest[p + 8..];
        // up to the first quote = name (and maybe '%'); then the literal
        let q = match rest.find(|c| c == '"' || c == '\'') { Some(q) => q, None => break };
        let gt = rest.find('>').unwrap_or(rest.len());
        if gt < q { continue; }
        let quote = rest[q..].chars().next().unwrap();
        let endq = match rest[q + 1..].find(quote) { Some(e) => q + 1 + e, None => break };
        out.push_str(&rest[..q + 1]);
        let lit = &rest[q + 1..endq];
        let fixed = lit.replace('<', "x").replace("&#60;", "x").replace("&#x3c;", "x").replace("&#x3C;", "x").replace("]]>", "]] >");
        if fixed != lit { changed = true; }
        out.push_str(&fixed);
        rest = &rest[endq..];
    }
    out.push_str(rest);
    if changed { Some(out) } else { None }
}

/// crude re-tokenisation of a text (for a second edit on an already edited text)
fn tokenize_text(s: &str) -> Vec<Tok> {
    let mut v = vec![]; let mut cur = String::new();
    for c in s.chars() {
        if matches!(c, '<' | '&') && !cur.is_empty() { v.push(tok(TK::Text, &cur)); cur.clear(); }
        cur.push(c);
        if matches!(c, '>' | ';') { v.push(tok(TK::Text, &cur)); cur.clear(); }
    }
    if !cur.is_empty() || v.is_empty() { v.push(tok(TK::Text, &cur)); }
    v
}

// ---------------------------------------------------------------------------------------------
// C03

/// linear step budget for parse + print of an input of `len` bytes (see DESIGN 4.C03)
pub fn c03_budget(len: usize) -> u64 { 400 * (len as u64 + 64) }

/// everything C03 quantifies over: parse (+ infoset), compact print, pretty print; both views
pub fn c03_ops(text: &str) -> u64 {
    let mut sink: Vec<u8> = Vec::new();
    if let Ok((_, d)) = xml_dom::XmlDocument::from_raw(text) { let s = d.to_string(); sink.extend_from_slice(s.as_bytes()); sink.clear(); let _ = d.pretty(&mut sink); }
    sink.clear();
    if let Ok((_, d)) = xml_dom::XmlDocument::from_raw_with_context(text, xml_dom::Context::from_text_expanded(true)) {
        let _ = d.pretty(&mut sink);
        // the information set is built lazily: its character items and normalised attribute values only exist once they are read.
        // Reading them is part of "information-set construction" (and what any caller of an accepted document does next)
        let _ = crate::obs::dump_tree(&d, DumpOpt { merged: true, ns: true, prolog: true, specified: true, reflevel: false });
    }
    sink.len() as u64
}

/// Some(signature class) if the totality oracle fires on `text`
pub fn c03_eval(text: &str, ctx: Option<&mut Ctx>) -> Option<(String, String)> {
    let (r, steps) = with_steps(c03_budget(text.len()), || c03_ops(text));
    if let Some(c) = ctx { c.steps(steps); let ratio = steps / (text.len() as u64 + 64); let e = c.hist.entry("max_steps_per_byte".into()).or_insert(0); if ratio > *e { *e = ratio; } }
    match r {
        Caught::Ok(_) => None,
        Caught::Panic { file, msg } => Some((format!("panic/{}/{}", file, norm_msg(&msg)), msg)),
        Caught::Budget(n) => Some(("steps".into(), format!("more than {} steps for {} bytes", n, text.len()))),
    }
}

pub fn family_input(fam: &str, n: usize) -> String {
    let rep = |s: &str, n: usize| s.repeat(n);
    match fam {
        "depth" => format!("{}{}", rep("<a>", n), rep("</a>", n)),
        "depth-attrs" => format!("{}{}", rep("<a x='1'>", n), rep("</a>", n)),
        "depth-unclosed" => rep("<a>", n),
        "width" => format!("<r>{}</r>", rep("<a/>", n)),
        "width-text" => format!("<r>{}</r>", rep("<a>t</a>x", n)),
        "attrs" => { let mut s = String::from("<r"); for i in 0..n { s.push_str(&format!(" a{}='v'", i)); } s.push_str("/>"); s }
        "text-length" => format!("<r>{}</r>", rep("abc def ", n)),
        "attr-length" => format!("<r a='{}'/>", rep("abc def ", n)),
        "name-length" => format!("<{}/>", rep("n", n.max(1))),
        "comment-length" => format!("<r><!--{}--></r>", rep("c ", n)),
        "cdata-length" => format!("<r><![CDATA[{}]]></r>", rep("]] ", n)),
        "pis" => format!("<r>{}</r>", rep("<?p d?>", n)),
        "charrefs" => format!("<r>{}</r>", rep("&#65;", n)),
        "charref-digits" => format!("<r>&#{}65;</r>", rep("0", n)),
        "nsdecls" => { let mut s = String::from("<r"); for i in 0..n { s.push_str(&format!(" xmlns:p{}='u{}'", i, i)); } s.push_str("><p0:a xmlns:p0='u0'/></r>"); s }
        "nested-choice" => format!("<!DOCTYPE r [<!ELEMENT r {}a{}>]><r/>", rep("(", n), rep("|b)", n)),
        "nested-seq" => format!("<!DOCTYPE r [<!ELEMENT r {}a{}>]><r/>", rep("(", n), rep(",b)", n)),
        "nested-group-bad" => format!("<!DOCTYPE r [<!ELEMENT r {}a{}>]><r/>", rep("(", n), rep(")", n.saturating_sub(1))),
        "mixed-names" => format!("<!DOCTYPE r [<!ELEMENT r (#PCDATA{})*>]><r/>", rep("|a", n)),
        "entity-chain" => { let mut s = String::from("<!DOCTYPE r [<!ENTITY e0 'x'>"); for i in 1..=n { s.push_str(&format!("<!ENTITY e{} '&e{};'>", i, i - 1)); } s.push_str(&format!("]><r a='&e{};'>&e{};</r>", n, n)); s }
        "entity-cycle" => { let mut s = String::from("<!DOCTYPE r ["); for i in 0..n.max(1) { s.push_str(&format!("<!ENTITY c{} '&c{};'>", i, (i + 1) % n.max(1))); } s.push_str("]><r a='&c0;'>&c0;</r>"); s }
        "entity-rho" => { let k = n.max(2); let mut s = String::from("<!DOCTYPE r ["); for i in 0..k { s.push_str(&format!("<!ENTITY h{} '&h{};'>", i, if i + 1 < k { i + 1 } else { k / 2 })); } s.push_str("]><r>&h0;</r>"); s }
        "entity-rho-attr" => { let k = n.max(2); let mut s = String::from("<!DOCTYPE r ["); for i in 0..k { s.push_str(&format!("<!ENTITY h{} 'x&h{};'>", i, if i + 1 < k { i + 1 } else { k - 1 })); } s.push_str("]><r a='&h0;'/>"); s }
        "entity-hidden-cycle" => { let k = n.max(1); let mut s = String::from("<!DOCTYPE r ["); for i in 0..k { s.push_str(&format!("<!ENTITY g{} '&#38;g{};'>", i, (i + 1) % k)); } s.push_str("]><r a='&g0;'>&g0;</r>"); s }
        "entity-escaped-chain" => { let mut s = String::from("<!DOCTYPE r [<!ENTITY d0 '&#38;#60;'>"); for i in 1..=n { s.push_str(&format!("<!ENTITY d{} '&#38;d{};'>", i, i - 1)); } s.push_str(&format!("]><r a='&d{};'>&d{};</r>", n, n)); s }
        "attlist-default-entref" => { let mut s = String::from("<!DOCTYPE r [<!ENTITY e 'v'>"); for i in 0..n.max(1) { s.push_str(&format!("<!ATTLIST r a{} CDATA '&e;&lt;&#38;'>", i)); } s.push_str("]><r/>"); s }
        "entity-predefined-cycle" => { let k = n.max(1); let mut s = String::from("<!DOCTYPE r [<!ENTITY amp '&z0;'>"); for i in 0..k { s.push_str(&format!("<!ENTITY z{} ' &{}; '>", i, if i + 1 < k { format!("z{}", i + 1) } else { "amp".to_string() })); } s.push_str("]><r a='&z0;'>&z0;</r>"); s }
        "entity-error-long-tail" => format!("<!DOCTYPE r [<!ENTITY e 'a&#38;{}'>]><r>&e;</r>", "\u{7814}\u{e9}x".repeat(n.max(1))),
        "entity-fanout" => { let mut s = String::from("<!DOCTYPE r [<!ENTITY f0 'x'>"); for i in 1..=n { s.push_str(&format!("<!ENTITY f{} '&f{};&f{};'>", i, i - 1, i - 1)); } s.push_str(&format!("]><r a='&f{};'/>", n)); s }
        "decls" => format!("<!DOCTYPE r [{}]><r/>", rep("<!ENTITY e 'v'><!NOTATION n SYSTEM 's'><!ATTLIST r a CDATA #IMPLIED>", n)),
        "lt-run" => rep("<", n),
        "amp-run" => format!("<r>{}</r>", rep("&", n)),
        "open-comment" => format!("<r>{}", rep("<!-", n)),
        "pe" => "<!DOCTYPE r [<!ENTITY % p 'x'> %p;]><r/>".to_string(),
        _ => String::new(),
    }
}

pub const FAMILIES: &[&str] = &["depth", "depth-attrs", "depth-unclosed", "width", "width-text", "attrs", "text-length", "attr-length", "name-length", "comment-length",
    "cdata-length", "pis", "charrefs", "charref-digits", "nsdecls", "nested-choice", "nested-seq", "nested-group-bad", "mixed-names", "entity-chain", "entity-cycle",
    "entity-fanout", "entity-predefined-cycle", "entity-error-long-tail", "entity-rho", "entity-rho-attr", "entity-hidden-cycle", "entity-escaped-chain", "attlist-default-entref", "decls", "lt-run", "amp-run", "open-comment", "pe"];

fn family_max(fam: &str, thorough: bool) -> usize {
    let big = if thorough { 200_000 } else { 20_000 };
    match fam {
        "depth" | "depth-attrs" | "depth-unclosed" => big,
        "nested-choice" | "nested-seq" | "nested-group-bad" => if thorough { 4096 } else { 512 },
        "entity-fanout" => if thorough { 64 } else { 32 },
        "attrs" | "nsdecls" | "entity-chain" | "entity-cycle" | "entity-predefined-cycle" | "entity-rho" | "entity-rho-attr" | "entity-hidden-cycle" | "entity-escaped-chain" | "attlist-default-entref" | "decls" => if thorough { 4000 } else { 1000 },
        "pe" => 1,
        _ => big,
    }
}

/// run one (family, n) in a child process so that aborts, stack overflows and memory blow-ups are observed
/// from outside. Returns None (held) or (class, detail).
fn run_family_child(fam: &str, n: usize) -> Result<Option<(String, String)>, String> {
    let exe = std::env::current_exe().map_err(|e| e.to_string())?;
    let out = std::process::Command::new("timeout").arg("--signal=KILL").arg("120").arg(exe).arg("C03").arg("--family").arg(format!("{}:{}", fam, n)).output().map_err(|e| e.to_string())?;
    let so = String::from_utf8_lossy(&out.stdout).to_string();
    use std::os::unix::process::ExitStatusExt;
    if let Some(sig) = out.status.signal() { if sig == 9 { return Err("timeout".into()); } return Ok(Some((format!("abort/{}", fam), format!("child killed by signal {} at n={}", sig, n)))); }
    match out.status.code() {
        Some(0) => { for l in so.lines() { if let Some(rest) = l.strip_prefix("FAMILY-FAIL\t") { let mut p = rest.splitn(2, '\t'); let class = p.next().unwrap_or("").to_string(); return Ok(Some((class, format!("n={} {}", n, p.next().unwrap_or(""))))); } } Ok(None) }
        Some(137) => Err("timeout".into()),
        Some(134) | Some(139) => Ok(Some((format!("abort/{}", fam), format!("child aborted (status {:?}) at n={}", out.status.code(), n)))),
        c => Ok(Some((format!("abort/{}", fam), format!("child exit status {:?} at n={} stderr {}", c, n, crate::util::truncate(&String::from_utf8_lossy(&out.stderr), 200))))),
    }
}

extern "C" { fn setrlimit(resource: i32, rlim: *const [u64; 2]) -> i32; }

pub fn c03(ctx: &mut Ctx) {
    // child mode: one size-family member, verdict on stdout
    if let Some(f) = ctx.family.clone() {
        let mut p = f.splitn(2, ':'); let fam = p.next().unwrap().to_string(); let n: usize = p.next().unwrap_or("1").parse().unwrap_or(1);
        unsafe { let lim = [6u64 << 30, 6u64 << 30]; setrlimit(9 /* RLIMIT_AS */, &lim); }
        let text = family_input(&fam, n);
        match c03_eval(&text, None) {
            None => println!("FAMILY-OK steps={} len={}", xml_nom::verif::read(), text.len()),
            Some((class, detail)) => { let class = if class == "steps" { format!("steps/{}", fam) } else { class }; println!("FAMILY-FAIL\t{}\t{}", class, detail.replace('\n', " ")) }
        }
        return;
    }
    // (a) corpus: generated documents, operators, blind edits, garbage
    let n: u64 = if ctx.thorough { 2_000_000 } else { 60_000 };
    for i in 0..n {
        if !ctx.mine(i) { continue; }
        let mut r = ctx.rng(i);
        let mut cfg = GenCfg::full(); cfg.literal_cr = true; cfg.attlist_effective = true;
        let doc = { let mut g = Gen::new(&mut r, cfg); g.doc() };
        let toks = render_tokens(&doc, &mut r, Style { minimal: false });
        let text = match i % 4 {
            0 => join(&toks),
            1 => apply_operator(OPERATORS[(i as usize / 4) % OPERATORS.len()], &toks, &mut r).unwrap_or_else(|| join(&toks)),
            2 => { let (t, _) = blind_edit(&toks, &mut r); let (t, _) = blind_edit(&tokenize_text(&t), &mut r); t }
            _ => { let k = r.range(0, 40); let mut s = String::new(); for _ in 0..k { s.push_str(r.pick_s(EDIT_ALPHABET)); if r.chance(1, 4) { s.push_str(r.pick_s(&["<!DOCTYPE a [", "<!ENTITY ", "<!ATTLIST a b ", "<!ELEMENT a (", "<![CDATA[", "<?xml version='1.0'", "%p;", "<!ENTITY % q 'z'>", " SYSTEM 'x'", " NDATA n", "#REQUIRED", "(a|b)*"])); } } s }
        };
        ctx.begin(i, &text);
        ctx.count(["corpus/valid", "corpus/operator", "corpus/blind", "corpus/garbage"][(i % 4) as usize]);
        ctx.nontrivial(&text);
        if i % 1999 == 3 { ctx.sample(&text); }
        if let Some((class, detail)) = c03_eval(&text, Some(ctx)) { ctx.violation(i, &format!("C03/{}", class), &format!("{} :: {}", detail, text), &[("text", &text)]); } else { ctx.count("total"); }
    }
    // (b) size families, each member in its own process; geometric schedule, stop a family at its first failure
    for (fi, fam) in FAMILIES.iter().enumerate() {
        let idx = 10_000_000 + fi as u64;
        if !ctx.mine(idx) { continue; }
        ctx.begin(idx, &format!("family {}", fam));
        let max = family_max(fam, ctx.thorough);
        let mut n = 1usize;
        let mut last_ok = 0usize;
        loop {
            match run_family_child(fam, n) {
                Ok(None) => { last_ok = n; ctx.count(&format!("family/{}/ok", fam)); }
                Ok(Some((class, detail))) => { ctx.violation(idx, &format!("C03/{}", class), &format!("{} (largest n that passed: {})", detail, last_ok), &[("family", fam), ("n", &n.to_string())]); break; }
                Err(why) => { ctx.inconclusive(&format!("family_{}_{}", fam, why)); break; }
            }
            if n >= max { break; }
            n = (n * 2).min(max);
        }
        ctx.nontrivial(&format!("family {} up to {}", fam, last_ok));
        ctx.count_n(&format!("family/{}/largest_ok", fam), last_ok as u64);
    }
}

// ---------------------------------------------------------------------------------------------
// C11

fn c11_pieces() -> Vec<(&'static str, APiece)> {
    vec![
        ("text-a", APiece::Text("a".into())), ("text-sp", APiece::Text(" ".into())), ("text-sp2", APiece::Text("  ".into())), ("text-tab", APiece::Text("\t".into())),
        ("text-lf", APiece::Text("\n".into())), ("text-padded", APiece::Text(" b c ".into())), ("charref-sp", APiece::CharRef(' ', false)), ("charref-tab", APiece::CharRef('\t', true)),
        ("charref-lf", APiece::CharRef('\n', false)), ("charref-cr", APiece::CharRef('\r', true)), ("charref-a", APiece::CharRef('a', false)), ("ent-plain", APiece::EntRef("eplain".into())),
        ("ent-ws", APiece::EntRef("ews".into())), ("ent-nested", APiece::EntRef("enest".into())), ("ent-charref-ws", APiece::EntRef("ecr".into())), ("ent-charref-cr", APiece::EntRef("ecr13".into())), ("ent-lt", APiece::EntRef("lt".into())),
        ("ent-quot", APiece::EntRef("quot".into())),
    ]
}

fn c11_types() -> Vec<(&'static str, Option<AttType>)> {
    vec![("undeclared", None), ("CDATA", Some(AttType::CData)), ("ID", Some(AttType::Id)), ("IDREF", Some(AttType::IdRef)), ("IDREFS", Some(AttType::IdRefs)), ("ENTITY", Some(AttType::Entity)),
         ("ENTITIES", Some(AttType::Entities)), ("NMTOKEN", Some(AttType::NmToken)), ("NMTOKENS", Some(AttType::NmTokens)), ("NOTATION", Some(AttType::Notation(vec!["n1".into()]))), ("ENUM", Some(AttType::Enum(vec!["a".into(), "b".into()])))]
}

/// build the C11 document: root `r` with attribute `a` written (or not) and declared (or not)
fn c11_doc(written: Option<&[APiece]>, ty: &Option<AttType>, default: &AttDefault, layout: usize) -> Doc {
    let mut decls = vec![
        Decl::Entity("eplain".into(), vec![APiece::Text("x y".into())]),
        Decl::Entity("ews".into(), vec![APiece::Text("p\tq\n r ".into())]),
        Decl::Entity("enest".into(), vec![APiece::Text(" ".into()), APiece::EntRef("ews".into()), APiece::Text("\n".into())]),
        Decl::Entity("ecr".into(), vec![APiece::Text("m".into()), APiece::CharRef('\n', false), APiece::CharRef('\t', true), APiece::Text("n".into())]),
        Decl::Entity("ecr13".into(), vec![APiece::Text("k".into()), APiece::CharRef('\r', false), APiece::Text("l".into())]),
        Decl::Notation("n1".into(), None, Some("n".into())),
    ];
    if let Some(t) = ty {
        let def = AttDef { prefix: None, local: "a".into(), ty: t.clone(), default: default.clone() };
        let other = AttDef { prefix: None, local: "b".into(), ty: AttType::CData, default: AttDefault::Implied };
        match layout {
            0 => decls.push(Decl::Attlist(None, "r".into(), vec![def])),
            1 => { decls.push(Decl::Attlist(None, "r".into(), vec![other])); decls.push(Decl::Attlist(None, "r".into(), vec![def])); }
            2 => { decls.push(Decl::Attlist(None, "r".into(), vec![other, def])); }
            _ => {
                // a repeated definition: the first one binds
                let shadow = AttDef { prefix: None, local: "a".into(), ty: AttType::CData, default: AttDefault::Value(false, vec![APiece::Text(" shadow ".into())]) };
                decls.push(Decl::Attlist(None, "r".into(), vec![def])); decls.push(Decl::Attlist(None, "r".into(), vec![shadow]));
            }
        }
    }
    let mut root = Elem { local: "r".into(), ..Default::default() };
    if let Some(w) = written { root.attrs.push(Attr { prefix: None, local: "a".into(), value: w.to_vec() }); }
    Doc { decl: None, pre: vec![], doctype: Some(Doctype { prefix: None, name: "r".into(), pubid: None, sysid: None, subset: Some(decls) }), mid: vec![], root, post: vec![] }
}

fn attr_lines(dump: &str) -> String { dump.lines().filter(|l| l.starts_with("A ")).collect::<Vec<_>>().join("\n") }

/// Some((what, detail)) if xml-rs reports something else than the reference for this document
fn c11_eval(doc: &Doc, text: &str) -> Result<Option<(String, String)>, String> {
    use xml_dom::{Document, Element};
    let opt = DumpOpt { merged: true, ns: false, prolog: false, specified: true, reflevel: false };
    let exp = attr_lines(&expected_dump(doc, opt));
    let r = guarded(|| -> Result<Option<(String, String)>, String> {
        let o = obs::dump_xmlrs(text, opt).map_err(|e| format!("rejected: {}", e))?;
        if o.rest != 0 { return Err("rest".into()); }
        let got = attr_lines(&o.dump);
        if got != exp {
            let what = if exp.is_empty() { "defaulted-extra" } else if got.is_empty() { "missing" } else if exp.replace(" S", "").replace(" D", "") == got.replace(" S", "").replace(" D", "") { "specified" } else { "value" };
            return Ok(Some((what.into(), format!("expected [{}] observed [{}]", exp, got))));
        }
        // the same value through get_attribute and through XPath string(@a)
        let p = obs::parse_dom(text, true)?;
        let root = p.doc.document_element().map_err(|e| format!("{:?}", e))?;
        let via_get = root.get_attribute("a");
        let expv_plain = c11_expected_value(doc).unwrap_or_default();
        if via_get != expv_plain { return Ok(Some(("get_attribute".into(), format!("expected {:?} observed {:?}", expv_plain, via_get)))); }
        let mut c = xml_xpath::eval::model::Context::default();
        match xml_xpath::query(p.doc.clone(), "string(/r/@a)", &mut c) {
            Ok(xml_xpath::eval::model::Value::Text(s)) => if s != expv_plain { return Ok(Some(("xpath-string".into(), format!("expected {:?} observed {:?}", expv_plain, s)))); },
            other => return Ok(Some(("xpath-string".into(), format!("unexpected {:?}", other.map(|v| format!("{:?}", v)).map_err(|e| e.to_string()))))),
        }
        Ok(None)
    });
    match r {
        Caught::Ok(Ok(v)) => Ok(v),
        Caught::Ok(Err(e)) => Ok(Some(("error".into(), e))),
        Caught::Panic { file, msg } => Ok(Some((format!("panic/{}/{}", file, norm_msg(&msg)), msg))),
        Caught::Budget(_) => Ok(Some(("steps".into(), String::new()))),
    }
}

/// the value the reference assigns to attribute `a` of the root (written or defaulted), if it exists
fn c11_expected_value(doc: &Doc) -> Option<String> {
    let ents = Entities::of(doc);
    let mut def: Option<AttDef> = None;
    if let Some(dt) = &doc.doctype { if let Some(ds) = &dt.subset { for d in ds { if let Decl::Attlist(_, l, defs) = d { if l == &doc.root.local { for df in defs { if df.local == "a" && def.is_none() { def = Some(df.clone()); } } } } } } }
    let cd = def.as_ref().map(|d| d.ty == AttType::CData).unwrap_or(true);
    if let Some(a) = doc.root.attrs.iter().find(|a| a.local == "a") { return Some(attr_normalized(&a.value, &ents, cd)); }
    if let Some(d) = &def { if let AttDefault::Value(_, v) = &d.default { return Some(attr_normalized(v, &ents, cd)); } }
    None
}

#[allow(dead_code)]
fn unesc(s: &str) -> String {
    let s = s.trim_matches('"');
    let mut o = String::new(); let mut it = s.chars();
    while let Some(c) = it.next() { if c == '\\' { match it.next() { Some('n') => o.push('\n'), Some('r') => o.push('\r'), Some('t') => o.push('\t'), Some('q') => o.push('"'), Some('\\') => o.push('\\'), _ => {} } } else { o.push(c); } }
    o
}

fn c11_ref_ok(doc: &Doc, text: &str) -> bool {
    let r = refxml::parse(text, true);
    if !r.wf { return false; }
    let exp = attr_lines(&expected_dump(doc, OPT_REF));
    attr_lines(&r.dump) == exp
}

pub fn c11(ctx: &mut Ctx) {
    let pieces = c11_pieces();
    let types = c11_types();
    let maxlen = if ctx.thorough { 4 } else { 3 };
    // enumerate literals up to maxlen pieces (exhaustive), then type/default/layout (exhaustive in thorough, rotating in quick)
    let mut lits: Vec<Vec<usize>> = vec![vec![]];
    let mut layer: Vec<Vec<usize>> = vec![vec![]];
    for _ in 0..maxlen { let mut next = vec![]; for l in &layer { for k in 0..pieces.len() { let mut v = l.clone(); v.push(k); next.push(v); } } lits.extend(next.iter().cloned()); layer = next; }
    let defaults: Vec<(&str, AttDefault)> = vec![("REQUIRED", AttDefault::Required), ("IMPLIED", AttDefault::Implied), ("DEFAULT", AttDefault::Value(false, vec![APiece::Text(" d1 \t d2 ".into()), APiece::CharRef(' ', false)])), ("DEFAULTENT", AttDefault::Value(false, vec![APiece::Text("d".into()), APiece::EntRef("ews".into())])), ("FIXED", AttDefault::Value(true, vec![APiece::Text("f1  f2".into())]))];
    let mut idx = 0u64;
    for (li, lit) in lits.iter().enumerate() {
        for (ti, (tname, ty)) in types.iter().enumerate() {
            for (di, (dname, def)) in defaults.iter().enumerate() {
                if ty.is_none() && di > 0 { continue; }
                // quick: one (default, layout) per (literal, type), rotating; thorough: all defaults, rotating layout
                if !ctx.thorough && (li + ti) % defaults.len() != di { continue; }
                for written in [true, false] {
                    if !written && li >= 4 { continue; }
                    idx += 1;
                    if !ctx.mine(idx) { continue; }
                    let layout = (li + ti + di) % 4;
                    let val: Vec<APiece> = lit.iter().map(|k| pieces[*k].1.clone()).collect();
                    // #FIXED requires the written value to match; not a well-formedness matter, keep it anyway
                    let doc = c11_doc(if written { Some(&val) } else { None }, ty, def, layout);
                    let mut r = ctx.rng(idx);
                    let text = render(&doc, &mut r, Style { minimal: idx % 2 == 0 });
                    if idx % 256 == 1 { ctx.begin(idx, &text); } else { ctx.evaluations += 1; }
                    ctx.count(&format!("type/{}", tname)); ctx.count(&format!("default/{}", dname)); ctx.count(if written { "written" } else { "not-written" });
                    ctx.nontrivial(&text);
                    if idx % 4001 == 0 { ctx.sample(&text); }
                    match c11_eval(&doc, &text) {
                        Ok(None) => ctx.count("agree"),
                        Ok(Some((what, detail))) => {
                            if !c11_ref_ok(&doc, &text) { ctx.inconclusive("oracle_disagreement"); if ctx.notes.len() < 6 { ctx.notes.push(format!("O2/O3 disagree on {}", text)); } continue; }
                            // shrink the literal: drop pieces while the same failure persists
                            let mut cur = val.clone();
                            if written { loop { let mut progressed = false; for k in 0..cur.len() { let mut c2 = cur.clone(); c2.remove(k); let d2 = c11_doc(Some(&c2), ty, def, layout); let t2 = render(&d2, &mut Rng::new(3), Style { minimal: true }); if matches!(c11_eval(&d2, &t2), Ok(Some((w, _))) if w == what) && c11_ref_ok(&d2, &t2) { cur = c2; progressed = true; break; } } if !progressed { break; } } }
                            let mut kinds: Vec<&str> = cur.iter().map(|p| pieces.iter().find(|x| &x.1 == p).map(|x| x.0).unwrap_or("?")).collect();
                            kinds.sort(); kinds.dedup();
                            let what = if what == "error" && *dname == "DEFAULTENT" { "error-default-entref".to_string() } else { what };
                            if what == "error-default-entref" { ctx.violation(idx, "C11/error-default-entref", &format!("{} :: {}", detail, text), &[("text", &text)]); continue; }
                            if what == "defaulted-extra" && !written { ctx.violation(idx, &format!("C11/defaulted-extra/unwritten-{}", dname), &format!("{} :: {}", detail, text), &[("text", &text)]); continue; }
                            let sig = format!("C11/{}/{}/{}/{}", what, if ty.is_none() { "undeclared" } else if matches!(ty, Some(AttType::CData)) { "CDATA" } else { "tokenized" }, if written { kinds.join("+") } else { format!("unwritten-{}", dname) }, if layout == 3 { "repeated-def" } else if layout == 1 { "second-attlist" } else { "-" });
                            ctx.violation(idx, &sig, &format!("{} :: {}", detail, text), &[("text", &text)]);
                        }
                        Err(e) => ctx.inconclusive(&e),
                    }
                }
            }
        }
    }
    c11_reown(ctx);
}

/// C11, DOM phase: the declared type of an attribute is that of its *current* owner element. An attribute node is created,
/// read, attached to an element that declares it with a tokenized type, read, moved to an element that does not declare it,
/// read, and moved back; every read must give the value normalised for the owner of that moment.
fn c11_reown(ctx: &mut Ctx) {
    use xml_dom::{AsNode, Attr, AttrMut, Document, DocumentMut, ElementMut, Node as DomNode, NodeList};
    let types = c11_types();
    let values = [" p  q ", "a", "  ", "p q ", " \u{e9} ", "x"];
    let mut idx = 40_000_000u64;
    for (tname, ty) in types.iter() {
        let ty = match ty { Some(t) => t, None => continue };
        for v in values.iter() {
            for first_read in [true, false] {
                idx += 1;
                if !ctx.mine(idx) { continue; }
                let decl = Decl::Attlist(None, "t".into(), vec![AttDef { prefix: None, local: "a".into(), ty: ty.clone(), default: AttDefault::Implied }]);
                let root = Elem { local: "r".into(), children: vec![Node::Elem(Elem { local: "t".into(), ..Default::default() }), Node::Elem(Elem { local: "u".into(), ..Default::default() })], ..Default::default() };
                let doc = Doc { decl: None, pre: vec![], doctype: Some(Doctype { prefix: None, name: "r".into(), pubid: None, sysid: None, subset: Some(vec![Decl::Notation("n1".into(), None, Some("n".into())), decl]) }), mid: vec![], root, post: vec![] };
                let text = render(&doc, &mut Rng::new(idx), Style { minimal: true });
                ctx.begin(idx, &text); ctx.count("reown/case"); ctx.nontrivial(&format!("reown|{}|{}|{}", tname, v, first_read));
                let cdata = matches!(ty, AttType::CData);
                let exp_plain = v.to_string();
                let exp_owned = if cdata { v.to_string() } else { v.split(' ').filter(|x| !x.is_empty()).collect::<Vec<_>>().join(" ") };
                let r = guarded(|| -> Result<Option<String>, String> {
                    let p = obs::parse_dom(&text, false)?;
                    let r = p.doc.document_element().map_err(|e| format!("{:?}", e))?;
                    let kids: Vec<xml_dom::XmlNode> = r.as_node().child_nodes().iter().collect();
                    let (t, u) = match (kids.first(), kids.get(1)) { (Some(xml_dom::XmlNode::Element(t)), Some(xml_dom::XmlNode::Element(u))) => (t.clone(), u.clone()), _ => return Err("shape".into()) };
                    let a = p.doc.create_attribute("a").map_err(|e| format!("{:?}", e))?;
                    a.set_value(v).map_err(|e| format!("{:?}", e))?;
                    let read = |stage: &str, want: &str| -> Result<Option<String>, String> { let got = a.value().map_err(|e| format!("{:?}", e))?; if got != want { Ok(Some(format!("{}: expected {:?} observed {:?}", stage, want, got))) } else { Ok(None) } };
                    if first_read { if let Some(w) = read("detached", &exp_plain)? { return Ok(Some(w)); } }
                    t.set_attribute_node(a.clone()).map_err(|e| format!("{:?}", e))?;
                    if let Some(w) = read("owned by the declaring element", &exp_owned)? { return Ok(Some(w)); }
                    t.remove_attribute_node(a.clone()).map_err(|e| format!("{:?}", e))?;
                    u.set_attribute_node(a.clone()).map_err(|e| format!("{:?}", e))?;
                    if let Some(w) = read("moved to an element that does not declare it", &exp_plain)? { return Ok(Some(w)); }
                    u.remove_attribute_node(a.clone()).map_err(|e| format!("{:?}", e))?;
                    t.set_attribute_node(a.clone()).map_err(|e| format!("{:?}", e))?;
                    if let Some(w) = read("moved back", &exp_owned)? { return Ok(Some(w)); }
                    Ok(None)
                });
                match r {
                    Caught::Ok(Ok(None)) => ctx.count("reown/agree"),
                    Caught::Ok(Ok(Some(w))) => ctx.violation(idx, &format!("C11/reown/value/{}", if cdata { "CDATA" } else { "tokenized" }), &format!("{} :: type {} value {:?} :: {}", w, tname, v, text), &[("text", &text), ("value", v)]),
                    Caught::Ok(Err(e)) => ctx.inconclusive(&format!("reown_setup:{}", crate::util::truncate(&e, 30))),
                    Caught::Panic { file, msg } => ctx.violation(idx, &format!("C11/reown/panic/{}", file), &msg, &[("text", &text)]),
                    Caught::Budget(_) => {}
                }
            }
        }
    }
}

// ---------------------------------------------------------------------------------------------

/// witnesses of known findings: field 0 = kind, field 1.. = data
pub fn witness(prop: &str, f: &[String], _ctx: &mut Ctx) -> Option<String> {
    let kind = f.first()?.as_str();
    let text = f.get(1).cloned().unwrap_or_default();
    match (prop, kind) {
        ("C02", "text") => match xmlrs_accepts(&text) { Ok(true) => { let lx = refxml::parse(&text, false); if !lx.wf { Some("C02/accept".into()) } else { None } } _ => None },
        ("C02", "explain") => { eprintln!("libxml2 wf={} expat={:?} explain={:?}", refxml::parse(&text, false).wf, refxml::expat_wf(&text), explain_blind(&text)); None }
        ("C03", "text") => c03_eval(&text, None).map(|x| format!("C03/{}", x.0)),
        ("C03", "family") => { let n: usize = f.get(2)?.parse().ok()?; match run_family_child(&text, n) { Ok(Some((c, _))) => Some(format!("C03/{}", c)), _ => None } }
        ("C04", "text") => c04_eval(&text).map(|x| format!("C04/{}", x.0)),
        ("C01", "text") | ("C11", "text") => {
            // the witness text must be accepted by libxml2 and give a different merged dump (attributes/tree) than xml-rs
            let lx = refxml::parse(&text, true);
            if !lx.wf { return None; }
            match guarded(|| obs::dump_xmlrs(&text, DumpOpt { merged: true, ns: false, prolog: false, specified: false, reflevel: false })) {
                Caught::Ok(Ok(o)) => {
                    if o.rest != 0 { return Some(format!("{}/rest", prop)); }
                    // compare modulo the lines libxml2 prints differently: strip ns columns from the reference dump
                    let refd = strip_ref(&lx.dump);
                    if refd != o.dump { Some(format!("{}/infoset", prop)) } else { None }
                }
                Caught::Ok(Err(_)) => Some(format!("{}/reject", prop)),
                _ => Some(format!("{}/panic", prop)),
            }
        }
        _ => None,
    }
}

/// reduce a libxml2 dump to the columns of an xml-rs dump without ns/prolog/specified
fn strip_ref(d: &str) -> String {
    let mut out = String::new();
    for l in d.lines() {
        let k = l.chars().next().unwrap_or(' ');
        match k {
            'D' | 'T' | 'O' | 'U' | 'I' => {}
            'E' => { let p: Vec<&str> = l.splitn(5, ' ').collect(); out.push_str(&format!("E {} {} {}\n", p[1], p[2], p[3])); }
            'A' => { // A depth prefix local uri value
                let p: Vec<&str> = l.splitn(6, ' ').collect(); out.push_str(&format!("A {} {} {} {}\n", p[1], p[2], p[3], p[5]));
            }
            'P' if l.starts_with("P 1 ") && d.lines().any(|x| x.starts_with("T ")) && false => {}
            _ => { out.push_str(l); out.push('\n'); }
        }
    }
    out
}
