//! C18 - character classes (exhaustive over all scalar values) and name syntax (exhaustive over
//! short strings of class representatives in four syntactic positions).
use crate::spec;
use crate::{guarded, Caught, Ctx};
use xml_nom::xmlchar;

const PREDS: &[(&str, fn(char) -> bool, fn(char) -> bool)] = &[
    ("is_char", xmlchar::is_char, spec::is_char),
    ("is_name_start_char", xmlchar::is_name_start_char, spec::is_name_start),
    ("is_name_char", xmlchar::is_name_char, spec::is_name_char),
    ("is_pubid_char", xmlchar::is_pubid_char, spec::is_pubid),
    ("is_enc_name", xmlchar::is_enc_name, spec::is_enc_name),
];

/// representatives: both neighbours of range bounds, each class
const REPS: &[char] = &[
    'a', 'Z', '_', ':', 'x', 'm', 'l', 'X', '0', '-', '.', '\u{b7}', '\u{300}', '\u{36f}', '\u{203f}', '\u{e9}', '\u{d7}', '\u{37e}', '\u{2fef}', '\u{2ff0}',
    '\u{2c00}', '\u{3000}', '\u{3001}', '\u{10000}', '\u{effff}', '\u{f0000}', '!', '\u{fffd}', '\u{f900}', '\u{2070}', '\u{206f}',
];

fn class_of(c: char) -> char { if c == ':' { ':' } else if spec::is_name_start(c) { 'S' } else if spec::is_name_char(c) { 'C' } else { 'X' } }

/// which rule of Name / NCName / QName the candidate breaks (None = it is a valid name for the position)
fn rule(pos: &str, s: &str) -> Option<&'static str> {
    if s.is_empty() { return Some("empty"); }
    if s.chars().any(|c| !spec::is_name_char(c)) { return Some("nonname-char"); }
    let qname = pos == "element" || pos == "attribute";
    if qname {
        let colons = s.matches(':').count();
        if colons > 1 { return Some("colon-count"); }
        for part in s.split(':') {
            if part.is_empty() { return Some("empty-part"); }
            if !spec::is_name_start(part.chars().next().unwrap()) { return Some("first-not-namestart"); }
        }
        None
    } else {
        if !spec::is_name_start(s.chars().next().unwrap()) { return Some("first-not-namestart"); }
        if pos == "pi" && s.eq_ignore_ascii_case("xml") { return Some("reserved-xml"); }
        None
    }
}

fn doc_for(pos: &str, s: &str) -> String {
    match pos {
        "element" => format!("<{}/>", s),
        "attribute" => format!("<a {}=\"v\"/>", s),
        "pi" => format!("<?{}?><a/>", s),
        _ => format!("<!DOCTYPE a [<!ENTITY {} \"v\">]><a>&{};</a>", s, s),
    }
}

fn accepted(text: &str) -> Result<bool, String> {
    match guarded(|| match xml_dom::XmlDocument::from_raw(text) { Ok((rest, _)) => rest.is_empty(), Err(_) => false }) {
        Caught::Ok(b) => Ok(b),
        Caught::Panic { file, msg } => Err(format!("panic/{}/{}", file, crate::norm_msg(&msg))),
        Caught::Budget(_) => Err("steps".into()),
    }
}

/// (signature, detail) if the candidate is classified wrongly
fn check_name(pos: &str, s: &str) -> Option<(String, String)> {
    // out of scope: colons in PI targets / entity names (XML 1.0 and Namespaces disagree), xmlns attributes
    if (pos == "pi" || pos == "entity") && s.contains(':') { return None; }
    if pos == "attribute" && (s == "xmlns" || s.starts_with("xmlns:")) { return None; }
    let r = rule(pos, s);
    let text = doc_for(pos, s);
    match accepted(&text) {
        Err(p) => Some((format!("C18/name/{}/{}", pos, p), text)),
        Ok(acc) => {
            if acc && r.is_some() { Some((format!("C18/name/{}/accepted/{}", pos, r.unwrap()), text)) }
            else if !acc && r.is_none() { Some((format!("C18/name/{}/rejected/valid-name", pos), text)) }
            else { None }
        }
    }
}

pub fn run(ctx: &mut Ctx) {
    // part 1: every Unicode scalar value x five predicates (shard 0 only: it takes < 1 s)
    if ctx.mine(0) {
        ctx.begin(0, "exhaustive character classes");
        for (name, imp, reff) in PREDS {
            let mut run: Option<(u32, u32)> = None;
            let mut n = 0u64;
            for u in 0..=0x10FFFFu32 {
                let c = match char::from_u32(u) { Some(c) => c, None => continue };
                n += 1;
                if imp(c) != reff(c) {
                    run = match run { Some((a, b)) if b + 1 == u => Some((a, u)), Some((a, b)) => { ctx.violation(0, &format!("C18/class/{}/{:04X}-{:04X}", name, a, b), &format!("{} differs from the XML 1.0 production on U+{:04X}..U+{:04X}", name, a, b), &[("first", &format!("{:X}", a)), ("pred", name)]); Some((u, u)) } None => Some((u, u)) };
                }
            }
            if let Some((a, b)) = run { ctx.violation(0, &format!("C18/class/{}/{:04X}-{:04X}", name, a, b), &format!("{} differs from the XML 1.0 production on U+{:04X}..U+{:04X}", name, a, b), &[("first", &format!("{:X}", a)), ("pred", name)]); }
            ctx.count_n(&format!("chars/{}", name), n);
            for (a, b) in spec::ranges_of(*reff) { ctx.nontrivial(&format!("{}{}{}", name, a, b)); }
        }
        ctx.sample("is_name_start_char over U+0000..U+10FFFF (1112064 scalar values) compared with production [4]");
    }
    // part 2: names. candidates = all strings over REPS of length 1..=L
    let maxlen = if ctx.thorough { 4 } else { 3 };
    let mut idx = 1u64;
    let mut cand: Vec<Vec<usize>> = vec![vec![]];
    for len in 1..=maxlen {
        let mut next = vec![];
        for c in &cand { for k in 0..REPS.len() { let mut v = c.clone(); v.push(k); next.push(v); } }
        cand = next;
        for c in &cand {
            idx += 1;
            if !ctx.mine(idx) { continue; }
            let s: String = c.iter().map(|k| REPS[*k]).collect();
            // one begin record per 4096 candidates keeps the log small; a crash is attributed to the block
            if ctx.evaluations % 4096 == 0 { ctx.begin(idx, &format!("names from {:?}", s)); } else { ctx.evaluations += 1; }
            let pat: String = s.chars().map(class_of).collect();
            for pos in ["element", "attribute", "pi", "entity"] {
                if let Some((sig, text)) = check_name(pos, &s) { ctx.violation(idx, &sig, &format!("candidate {:?} (classes {}) in {}", s, pat, text), &[("pos", pos), ("name", &s)]); }
                ctx.count(&format!("names/{}/len{}", pos, len));
            }
            ctx.nontrivial(&format!("{}", s));
            if idx % 9973 == 0 { ctx.sample(&format!("name candidate {:?} classes {} -> {}", s, pat, doc_for("element", &s))); }
        }
    }
    // part 2b: the same candidates behind the literal stems the grammar looks ahead past ("xmlns" in attribute
    // names, "xml" in PI targets): a name that merely begins with a keyword is an ordinary name
    const STEMS: &[&str] = &["xmlns", "xml", "xm", "XML", "xmlnsx", "a:xmlns", "xml:xmlns"];
    let sufmax = if ctx.thorough { 3 } else { 2 };
    let mut sidx = 40_000_000u64;
    let mut suf: Vec<Vec<usize>> = vec![vec![]];
    for len in 0..=sufmax {
        if len > 0 {
            let mut next = vec![];
            for c in &suf { for k in 0..REPS.len() { let mut v = c.clone(); v.push(k); next.push(v); } }
            suf = next;
        }
        for c in &suf {
            sidx += 1;
            if !ctx.mine(sidx) { continue; }
            let tail: String = c.iter().map(|k| REPS[*k]).collect();
            ctx.begin(sidx, &format!("keyword stems + {:?}", tail));
            for stem in STEMS {
                let s = format!("{}{}", stem, tail);
                let pat: String = s.chars().map(class_of).collect();
                for pos in ["element", "attribute", "pi", "entity"] {
                    if let Some((sig, text)) = check_name(pos, &s) { ctx.violation(sidx, &sig, &format!("candidate {:?} (classes {}) in {}", s, pat, text), &[("pos", pos), ("name", &s)]); }
                    ctx.count(&format!("names/stem/{}", pos));
                }
                ctx.nontrivial(&s);
            }
        }
    }
    in_situ(ctx);
}

/// part 3: every scalar value, inside and at the start of a name, through the real name parsers of each position
/// (a classifier can be right while the scanner built on it is not). Characters that are not name characters may
/// end the name legally (white space, '/', '>', '=' ...): libxml2 says whether the text is then still well-formed.
fn in_situ(ctx: &mut Ctx) {
    let positions: &[&str] = if ctx.thorough { &["element", "attribute", "pi", "entity"] } else { &["element", "attribute"] };
    const BLOCK: u32 = 2048;
    let mut b = 0u32;
    while b * BLOCK <= 0x10FFFF {
        let idx = 50_000_000 + b as u64;
        let lo = b * BLOCK; b += 1;
        if !ctx.mine(idx) { continue; }
        ctx.begin(idx, &format!("scalar values from U+{:04X} in names", lo));
        for u in lo..(lo + BLOCK).min(0x110000) {
            let c = match char::from_u32(u) { Some(c) => c, None => continue };
            if c == ':' { continue; }
            let forms: &[&str] = if ctx.thorough { &["a{}", "{}", "a{}b"] } else { &["a{}", "{}"] };
            for f in forms {
                let s = f.replace("{}", &c.to_string());
                for pos in positions {
                    ctx.evaluations += 1;
                    if pos == &"pi" && s.eq_ignore_ascii_case("xml") { continue; }
                    let text = doc_for(pos, &s);
                    let r = rule(pos, &s);
                    // not a name character: the text may still be well-formed because the character ends the name
                    if r == Some("nonname-char") && crate::refxml::parse(&text, false).wf { ctx.count("in-situ/delimiter"); continue; }
                    match accepted(&text) {
                        Err(p) => ctx.violation(idx, &format!("C18/name/{}/{}", pos, p), &format!("U+{:04X} in {}", u, text), &[("pos", pos), ("name", &s)]),
                        Ok(acc) => {
                            if acc && r.is_some() { ctx.violation(idx, &format!("C18/name/{}/accepted/{}", pos, r.unwrap()), &format!("U+{:04X} in {}", u, text), &[("pos", pos), ("name", &s)]); }
                            else if !acc && r.is_none() { ctx.violation(idx, &format!("C18/name/{}/rejected/valid-name", pos), &format!("U+{:04X} in {}", u, text), &[("pos", pos), ("name", &s)]); }
                            else { ctx.count(if acc { "in-situ/accepted" } else { "in-situ/rejected" }); }
                        }
                    }
                }
            }
        }
        ctx.nontrivial(&format!("in-situ block {}", lo));
    }
}

pub fn witness(f: &[String]) -> Option<String> {
    // fields: kind ("class" | "name"), then (pred, hex code point) or (pos, name)
    if f.len() < 3 { return None; }
    if f[0] == "class" {
        let u = u32::from_str_radix(&f[2], 16).ok()?;
        let c = char::from_u32(u)?;
        for (name, imp, reff) in PREDS { if *name == f[1] && imp(c) != reff(c) { return Some(format!("C18/class/{}", name)); } }
        None
    } else { check_name(&f[1], &f[2]).map(|x| x.0) }
}
