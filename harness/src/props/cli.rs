//! C17: the xq / xe example tools, observed from outside (exit status, stderr, stdout re-read by libxml2).
use crate::model::{self, APiece, Attr, Doc, Elem, Gen, GenCfg, Misc, Node, Style};
use crate::props::parse::ref_disagrees;
use crate::props::xpathp::{ref_eval, Outcome};
use crate::rng::Rng;
use crate::xp::{self, RKind, RTree};
use crate::Ctx;
use std::io::Write;
use std::process::{Command, Stdio};

pub struct Run { pub code: Option<i32>, pub signal: Option<i32>, pub stdout: String, pub stderr: String, pub timed_out: bool }

fn tool(name: &str) -> std::path::PathBuf {
    if let Ok(d) = std::env::var("XV_EXAMPLES") { return std::path::Path::new(&d).join(name); }
    let exe = std::env::current_exe().unwrap_or_default();
    // /verif/target/<profile>/xv -> /verif/target/repo/debug/examples/<name>
    exe.parent().and_then(|p| p.parent()).map(|t| t.join("repo").join("debug").join("examples").join(name)).unwrap_or_else(|| name.into())
}

pub fn run_tool(name: &str, args: &[String], stdin: Option<&str>) -> Result<Run, String> {
    let mut c = Command::new("timeout");
    c.arg("--signal=KILL").arg("20").arg(tool(name)).args(args).env("RUST_BACKTRACE", "0").stdin(Stdio::piped()).stdout(Stdio::piped()).stderr(Stdio::piped());
    let mut child = c.spawn().map_err(|e| format!("spawn: {}", e))?;
    if let Some(mut si) = child.stdin.take() { if let Some(s) = stdin { let _ = si.write_all(s.as_bytes()); } }
    let out = child.wait_with_output().map_err(|e| format!("wait: {}", e))?;
    use std::os::unix::process::ExitStatusExt;
    let code = out.status.code(); let signal = out.status.signal();
    Ok(Run { code, signal, stdout: String::from_utf8_lossy(&out.stdout).to_string(), stderr: String::from_utf8_lossy(&out.stderr).to_string(), timed_out: code == Some(137) || signal == Some(9) })
}

/// the way a tool ended: None = acceptable for the expectation, Some(symptom) otherwise
fn ending(r: &Run, expect_success: bool) -> Option<String> {
    if r.timed_out { return Some("timeout".into()); }
    if let Some(s) = r.signal { return Some(format!("killed-by-signal-{}", s)); }
    if r.stderr.contains("panicked at") { return Some("panic".into()); }
    match (r.code, expect_success) {
        (Some(0), true) => None,
        (Some(0), false) => Some("exit-0-on-unusable-input".into()),
        (Some(_), true) => Some("error-exit-on-usable-input".into()),
        (Some(_), false) => if r.stderr.trim().is_empty() { Some("no-error-message".into()) } else { None },
        (None, _) => Some("no-exit-status".into()),
    }
}

// ------------------------------------------------------------------------------------------------
// model-level editing

fn strip_newlines(s: &str) -> String { s.replace(['\n', '\r'], " ") }
fn strip_elem(e: &mut Elem) {
    for a in e.attrs.iter_mut() { for p in a.value.iter_mut() { match p { APiece::Text(t) => *t = strip_newlines(t), APiece::CharRef(c, _) => if *c == '\n' || *c == '\r' { *c = ' ' }, _ => {} } } }
    for c in e.children.iter_mut() { match c { Node::Elem(x) => strip_elem(x), Node::Text(t) | Node::CData(t) | Node::Comment(t) => *t = strip_newlines(t), Node::PI(_, Some(d)) => *d = strip_newlines(d), Node::CharRef(ch, _) => if *ch == '\n' || *ch == '\r' { *ch = ' ' }, _ => {} } }
}
/// documents for xq: one output line per selected node, so no line ends inside nodes
fn strip_doc(d: &mut Doc) {
    strip_elem(&mut d.root);
    for m in d.pre.iter_mut().chain(d.mid.iter_mut()).chain(d.post.iter_mut()) { match m { Misc::Comment(c) => *c = strip_newlines(c), Misc::PI(_, Some(x)) => *x = strip_newlines(x), _ => {} } }
    if let Some(dt) = d.doctype.as_mut() { if let Some(ds) = dt.subset.as_mut() { for dc in ds.iter_mut() { match dc { model::Decl::Comment(c) => *c = strip_newlines(c), model::Decl::PI(_, Some(x)) => *x = strip_newlines(x), _ => {} } } } }
}

/// the element at a locator ("/k/i/j"), navigating merged child indexes exactly as RTree::build numbers them
fn elem_at_mut<'a>(doc: &'a mut Doc, ents: &model::Entities, loc: &str) -> Option<&'a mut Elem> {
    let mut parts = loc.split('/').filter(|p| !p.is_empty()).map(|p| p.parse::<usize>().ok());
    let top = parts.next()??;
    if top != doc.pre.len() + doc.mid.len() { return None; }
    let mut cur = &mut doc.root;
    for p in parts {
        let want = p?;
        let mut idx = 0usize; let mut run: Option<String> = None; let mut found: Option<usize> = None;
        for (k, c) in cur.children.iter().enumerate() {
            let piece = match c { Node::Text(s) | Node::CData(s) => Some(model::norm_eol(s)), Node::CharRef(ch, _) => Some(ch.to_string()), Node::EntRef(n) => Some(ents.content_value(n)), _ => None };
            if let Some(pc) = piece { run.get_or_insert_with(String::new).push_str(&pc); continue; }
            if let Some(s) = run.take() { if !s.is_empty() { idx += 1; } }
            if idx == want { if let Node::Elem(_) = c { found = Some(k); } break; }
            idx += 1;
        }
        let k = found?;
        cur = match &mut cur.children[k] { Node::Elem(e) => e, _ => return None };
    }
    Some(cur)
}

#[derive(Debug)]
pub enum EditErr { Refuse(&'static str), Model(String),
    /// the property does not say (a text, comment or PI node of the selection lies beneath a node that was replaced before)
    Unspecified }

fn frag_as_pieces(frag: &[Node]) -> Option<Vec<APiece>> {
    let mut v = vec![];
    for n in frag { match n { Node::Text(t) => v.push(APiece::Text(t.clone())), Node::CharRef(c, h) => v.push(APiece::CharRef(*c, *h)), Node::EntRef(n) => v.push(APiece::EntRef(n.clone())), _ => return None } }
    Some(v)
}

/// what `xe --xpath <selecting these nodes> --value <frag>` must produce
pub fn model_edit(doc: &Doc, tree: &RTree, selected: &[usize], frag: &[Node]) -> Result<Doc, EditErr> {
    let mut out = doc.clone();
    let ents = model::Entities::of(doc);
    let mut done: Vec<usize> = vec![];
    for &n in selected {
        let nd = &tree.nodes[n];
        // beneath a node that an earlier replacement of this run removed: an element's new content is invisible; an attribute would have
        // to take the replacement as its value, which xe refuses for markup although the node is gone already - the property does not say
        if done.iter().any(|&d| tree.is_ancestor(d, n)) { if nd.kind == RKind::Elem || nd.kind == RKind::Root || (nd.kind == RKind::Attr && frag_as_pieces(frag).is_some()) { continue; } else { return Err(EditErr::Unspecified); } }
        match nd.kind {
            RKind::Elem => { let e = elem_at_mut(&mut out, &ents, &nd.locator).ok_or_else(|| EditErr::Model(format!("cannot navigate to {}", nd.locator)))?; e.children = frag.to_vec(); model::normalize(e); done.push(n); }
            RKind::Attr => {
                let pieces = frag_as_pieces(frag).ok_or(EditErr::Refuse("markup in an attribute value"))?;
                let (path, qn) = nd.locator.split_once('@').ok_or_else(|| EditErr::Model("attribute locator".into()))?;
                let e = elem_at_mut(&mut out, &ents, path).ok_or_else(|| EditErr::Model(format!("cannot navigate to {}", path)))?;
                let a = e.attrs.iter_mut().find(|a| match &a.prefix { Some(p) => format!("{}:{}", p, a.local) == qn, None => a.local == qn }).ok_or_else(|| EditErr::Model(format!("no attribute {}", qn)))?;
                a.value = pieces;
            }
            RKind::Root => {
                let mut elems = frag.iter().filter(|n| matches!(n, Node::Elem(_)));
                let root = match (elems.next(), elems.next()) { (Some(Node::Elem(e)), None) => e.clone(), _ => return Err(EditErr::Refuse("a document needs exactly one element")) };
                if frag.iter().any(|n| matches!(n, Node::Text(_) | Node::CData(_) | Node::CharRef(..) | Node::EntRef(_))) { return Err(EditErr::Refuse("character data at document level")); }
                let pos = frag.iter().position(|n| matches!(n, Node::Elem(_))).unwrap();
                let misc = |n: &Node| match n { Node::Comment(c) => Some(Misc::Comment(c.clone())), Node::PI(t, d) => Some(Misc::PI(t.clone(), d.clone())), _ => None };
                out.pre = frag[..pos].iter().filter_map(misc).collect(); out.mid = vec![]; out.doctype = None; out.root = root; out.post = frag[pos + 1..].iter().filter_map(misc).collect();
                done.push(n);
            }
            _ => return Err(EditErr::Refuse("not an element, attribute or document node")),
        }
    }
    Ok(out)
}

// ------------------------------------------------------------------------------------------------
// generators

const FRAG_TEXTS: &[&str] = &["new", "x y", "\u{e9}\u{1d4b3}", " ", "a]b", "1 > 0", "q'q", "d\"d", "-", "v", "say \"it's\"", "'\"", "\"'\"'"];

fn gen_fragment(r: &mut Rng, kind: usize) -> (Vec<Node>, &'static str) {
    let leaf = |r: &mut Rng, n: &str| Node::Elem(Elem { local: n.into(), attrs: if r.chance(1, 2) { vec![Attr { prefix: None, local: "k".into(), value: if r.chance(1, 3) {
            // references inside the attribute value of the replacement (white-space character references are a recorded finding)
            let mut v = vec![APiece::Text("a".into())];
            for _ in 0..r.range(1, 3) { v.push(match r.below(5) { 0 => APiece::EntRef("lt".into()), 1 => APiece::EntRef("amp".into()), 2 => APiece::EntRef("quot".into()), 3 => APiece::CharRef(*r.pick(&['\u{e9}', '<', '&', 'A', '\'']), r.chance(1, 2)), _ => APiece::Text(r.pick_s(&["b", "'", " c", ">"]).to_string()) }); }
            v
        } else { vec![APiece::Text(r.pick_s(FRAG_TEXTS).replace('"', "").to_string())] } }] } else { vec![] }, children: if r.chance(1, 2) { vec![Node::Text(r.pick_s(FRAG_TEXTS).to_string())] } else { vec![] }, ..Default::default() });
    match kind % 9 {
        0 => (vec![], "empty"),
        1 => (vec![Node::Text(r.pick_s(FRAG_TEXTS).to_string())], "text"),
        2 => (vec![leaf(r, "z")], "element"),
        3 => (vec![Node::Text("t1".into()), leaf(r, "z"), Node::Text("t2".into()), Node::Elem(Elem { local: "y".into(), children: vec![leaf(r, "w"), Node::Comment("in".into())], ..Default::default() })], "mixed-tree"),
        4 => (vec![Node::CData(r.pick_s(&["<c>&", "x", "]] >", ""]).to_string())], "cdata"),
        5 => (vec![Node::Comment(r.pick_s(&["c", " a - b ", ""]).to_string()), leaf(r, "z")], "comment+element"),
        6 if r.chance(1, 3) => (match r.below(4) { 0 => vec![Node::Text("]]".into()), Node::CharRef('>', r.chance(1, 2))], 1 => vec![Node::Text("]".into()), Node::CharRef(']', true), Node::Text(">".into())], 2 => vec![Node::CharRef(']', true), Node::Text("]>".into())], _ => vec![Node::Text("a]]".into()), Node::EntRef("gt".into()), Node::Text("b".into())] }, "cdata-end-across-references"),
        6 => (vec![Node::Text("a".into()), Node::EntRef(r.pick_s(&["lt", "amp", "gt", "quot", "apos"]).to_string()), Node::CharRef(*r.pick(&['A', '<', '\u{e9}', ' ']), r.chance(1, 2)), Node::Text("b".into())], "text+references"),
        7 => (vec![Node::PI("pi".into(), Some("d".into())), leaf(r, "z")], "pi+element"),
        _ => (vec![Node::Elem(Elem { prefix: Some("n".into()), local: "q".into(), nsdecls: vec![(Some("n".into()), "urn:n".into()), (None, "urn:d".into())], attrs: vec![Attr { prefix: Some("n".into()), local: "k".into(), value: vec![APiece::Text("1".into())] }], children: vec![Node::Elem(Elem { local: "in".into(), ..Default::default() })] })], "namespaced-element"),
    }
}

fn cli_cfg() -> GenCfg { let mut c = GenCfg::xpath(); c.attlist_effective = false; c.entities = false; c.max_nodes = 20; c }

fn elem_names(tree: &RTree) -> Vec<String> { let mut v: Vec<String> = vec![]; for n in &tree.nodes { if n.kind == RKind::Elem && n.prefix.is_none() && n.uri.is_none() && !v.contains(&n.local) { v.push(n.local.clone()); } } v }

fn parse_expr(s: &str, tree: &RTree) -> Option<xp::Expr> {
    // the small set of selecting paths used here, as ASTs for the reference evaluator
    use xp::{Axis, Expr, Start, Step, Test};
    let dstep = |test: Test, axis: Axis| Step { axis, test, preds: vec![], dslash: true };
    let _ = tree;
    if s == "/" { return Some(Expr::Path(Start::Root, vec![])); }
    if s == "//*" { return Some(Expr::Path(Start::Root, vec![dstep(Test::Any, Axis::Child)])); }
    if s == "//text()" { return Some(Expr::Path(Start::Root, vec![dstep(Test::Text, Axis::Child)])); }
    if s == "//comment()" { return Some(Expr::Path(Start::Root, vec![dstep(Test::Comment, Axis::Child)])); }
    if s == "//processing-instruction()" { return Some(Expr::Path(Start::Root, vec![dstep(Test::PI, Axis::Child)])); }
    if s == "//node()" { return Some(Expr::Path(Start::Root, vec![dstep(Test::Node, Axis::Child)])); }
    if let Some(k) = s.strip_prefix("(//*)[").and_then(|x| x.strip_suffix(']')) { return Some(Expr::Path(Start::Filter(Box::new(Expr::Path(Start::Root, vec![dstep(Test::Any, Axis::Child)])), vec![Expr::Num(k.to_string())]), vec![])); }
    if let Some(n) = s.strip_prefix("//@") { return Some(Expr::Path(Start::Root, vec![dstep(Test::Name(None, n.to_string()), Axis::Attribute)])); }
    if let Some(n) = s.strip_prefix("count(//").and_then(|x| x.strip_suffix(')')) { return Some(Expr::Func("count".into(), vec![Expr::Path(Start::Root, vec![dstep(if n == "*" { Test::Any } else { Test::Name(None, n.to_string()) }, Axis::Child)])])); }
    if let Some(n) = s.strip_prefix("string(//").and_then(|x| x.strip_suffix(')')) { return Some(Expr::Func("string".into(), vec![Expr::Path(Start::Root, vec![dstep(Test::Name(None, n.to_string()), Axis::Child)])])); }
    if let Some(n) = s.strip_prefix("boolean(//").and_then(|x| x.strip_suffix(')')) { return Some(Expr::Func("boolean".into(), vec![Expr::Path(Start::Root, vec![dstep(Test::Name(None, n.to_string()), Axis::Child)])])); }
    if let Some(n) = s.strip_prefix("//") { return Some(Expr::Path(Start::Root, vec![dstep(Test::Name(None, n.to_string()), Axis::Child)])); }
    None
}

fn hexs(s: &str) -> String { crate::util::hex_encode(s) }

// ------------------------------------------------------------------------------------------------

pub fn c17(ctx: &mut Ctx) {
    if !tool("xq").exists() || !tool("xe").exists() { ctx.inconclusive("tools_not_built"); return; }
    let n: u64 = if ctx.thorough { 40_000 } else { 2_400 };
    for i in 0..n {
        if !ctx.mine(i) { continue; }
        let mut r = ctx.rng(i);
        ctx.begin(i, "");
        let mut doc = { let mut g = Gen::new(&mut r, cli_cfg()); g.doc() };
        strip_doc(&mut doc);
        let text = model::render(&doc, &mut r, Style { minimal: false });
        let tree = RTree::build(&doc);
        let names = elem_names(&tree);
        let nelems = tree.nodes.iter().filter(|n| n.kind == RKind::Elem).count();
        let attr_names: Vec<String> = { let mut v = vec![]; for n in &tree.nodes { if n.kind == RKind::Attr && n.prefix.is_none() && !v.contains(&n.local) { v.push(n.local.clone()); } } v };
        // a selecting path
        let (sel_kind, expr): (&str, String) = match r.below(12) {
            0 | 1 | 2 if !names.is_empty() => ("element-by-name", format!("//{}", r.pick(&names))),
            3 | 4 => ("element-by-position", format!("(//*)[{}]", r.range(1, nelems.max(1)))),
            5 => ("all-elements", "//*".to_string()),
            6 | 7 if !attr_names.is_empty() => ("attribute", format!("//@{}", r.pick(&attr_names))),
            8 => ("document", "/".to_string()),
            9 => ("none", "//nomatch".to_string()),
            10 => ("non-container", r.pick_s(&["//text()", "//comment()", "//processing-instruction()"]).to_string()),
            _ => ("scalar", if names.is_empty() { "count(//*)".to_string() } else { format!("{}(//{})", r.pick_s(&["count", "string", "boolean"]), r.pick(&names)) }),
        };
        // every fourth case selects by namespace through a caller binding (--setns)
        let uris: Vec<String> = { let mut v: Vec<String> = vec![]; for n in &tree.nodes { if n.kind == RKind::Elem { if let Some(u) = &n.uri { if !v.contains(u) && !u.contains(' ') { v.push(u.clone()); } } } } v };
        // ... or through the default namespace of the caller (--setns xmlns=uri), which stands for a prefix on element names
        let mut default_setns: Option<String> = None;
        let mut default_ast: Option<xp::Expr> = None;
        let (sel_kind, expr, ns): (&str, String, Vec<(String, String)>) = if (i % 8 == 3 || i % 8 == 6) && !uris.is_empty() {
            let u = r.pick(&uris).clone();
            if r.chance(1, 2) {
                let locals: Vec<String> = { let mut v: Vec<String> = vec![]; for n in &tree.nodes { if n.kind == RKind::Elem && n.uri.as_deref() == Some(u.as_str()) && !v.contains(&n.local) { v.push(n.local.clone()); } } v };
                let l = r.pick(&locals).clone();
                default_setns = Some(u.clone());
                let step = |test: xp::Test, axis: xp::Axis, dslash: bool| xp::Step { axis, test, preds: vec![], dslash };
                let (s, a) = match r.below(3) {
                    0 => (format!("//{}", l), xp::Expr::Path(xp::Start::Root, vec![step(xp::Test::Name(Some("c0".into()), l.clone()), xp::Axis::Child, true)])),
                    1 => (format!("count(//{})", l), xp::Expr::Func("count".into(), vec![xp::Expr::Path(xp::Start::Root, vec![step(xp::Test::Name(Some("c0".into()), l.clone()), xp::Axis::Child, true)])])),
                    _ => (format!("//{}/text()", l), xp::Expr::Path(xp::Start::Root, vec![step(xp::Test::Name(Some("c0".into()), l.clone()), xp::Axis::Child, true), step(xp::Test::Text, xp::Axis::Child, false)])),
                };
                default_ast = Some(a);
                ("by-default-namespace", s, vec![("c0".to_string(), u)])
            } else { ("by-namespace", "//c0:*".to_string(), vec![("c0".to_string(), u)]) }
        } else { (sel_kind, expr, vec![]) };
        // every third case takes its path from the expression generator of C05 (any node-set or scalar expression outside the
        // zones of recorded findings: the reference must give the same answer under every bug-compatible switch)
        let mut generated: Option<xp::Expr> = None;
        let (sel_kind, expr, ns) = if i % 3 == 2 && default_setns.is_none() {
            let mut dns: Vec<(String, String)> = vec![];
            fn walk(e: &Elem, ns: &mut Vec<(String, String)>) { for (p, u) in &e.nsdecls { if let Some(p) = p { if !u.is_empty() && !u.contains(' ') && !ns.iter().any(|x| &x.0 == p) { ns.push((p.clone(), u.clone())); } } } for c in &e.children { if let Node::Elem(x) = c { walk(x, ns); } } }
            walk(&doc.root, &mut dns);
            let g = crate::props::xpathp::c05_gen(&doc);
            let mut found = None;
            for _ in 0..8 {
                let e = if r.chance(3, 4) { g.nodeset(&mut r, 1, true) } else { g.top(&mut r) };
                let e0 = ref_eval(&tree, &e, &dns, None);
                let clean = (1..(1u32 << xp::Dev::COUNT)).all(|m| { let (em, tainted) = crate::props::xpathp::ref_eval_dev(&tree, &e, &dns, None, xp::Dev::from_mask(m)); !tainted && crate::props::xpathp::diff(&e0, &em).is_none() });
                // the relative order of one element's attributes is open: such selections are left to the table
                let attr_pair = matches!(&e0, Outcome::Nodes(v) if { let mut owners: Vec<&str> = v.iter().filter_map(|l| l.find('@').map(|p| &l[..p])).collect(); let n0 = owners.len(); owners.sort(); owners.dedup(); owners.len() != n0 });
                let order_open = crate::props::xpathp::alt_trees(&doc, &tree).iter().any(|t| crate::props::xpathp::diff(&e0, &ref_eval(t, &e, &dns, None)).is_some());
                if clean && !attr_pair && !order_open && !matches!(e0, Outcome::Err(_)) { found = Some(e); break; }
            }
            match found { Some(e) => { let s = xp::render(&e, xp::Spelling::abbreviated(), None); generated = Some(e); ("generated", s, dns) } None => (sel_kind, expr, ns) }
        } else { (sel_kind, expr, ns) };
        // every seventh case: one reverse-axis step taken from a single node (the records must still come in document order)
        let (sel_kind, expr, ns) = if generated.is_none() && default_setns.is_none() && i % 7 == 5 {
            use xp::{Axis, Expr, Start, Step, Test};
            let k = r.range(1, nelems.max(1));
            let inner = Expr::Path(Start::Root, vec![Step { axis: Axis::Child, test: Test::Any, preds: vec![], dslash: true }]);
            let pick = if r.chance(1, 4) { Expr::Func("last".into(), vec![]) } else { Expr::Num(k.to_string()) };
            let (axis, test) = *r.pick(&[(Axis::Ancestor, 0), (Axis::AncestorOrSelf, 1), (Axis::PrecedingSibling, 1), (Axis::Preceding, 0), (Axis::AncestorOrSelf, 0), (Axis::PrecedingSibling, 0)]);
            let e = Expr::Path(Start::Filter(Box::new(inner), vec![pick]), vec![Step { axis, test: if test == 0 { Test::Any } else { Test::Node }, preds: vec![], dslash: false }]);
            let s = xp::render(&e, xp::Spelling::abbreviated(), None);
            generated = Some(e);
            ("reverse-axis-from-one-node", s, vec![])
        } else { (sel_kind, expr, ns) };
        let ast = if let Some(e) = generated { e } else if let Some(a) = default_ast.take() { a } else if sel_kind == "by-namespace" { xp::Expr::Path(xp::Start::Root, vec![xp::Step { axis: xp::Axis::Child, test: xp::Test::NsAny("c0".into()), preds: vec![], dslash: true }]) } else { match parse_expr(&expr, &tree) { Some(a) => a, None => { ctx.inconclusive("expression_outside_harness_table"); continue; } } };
        let exp = ref_eval(&tree, &ast, &ns, None);
        let via_file = r.chance(1, 3);
        let path = format!("{}/c17-{}-{}.xml", std::env::temp_dir().display(), std::process::id(), i);
        if via_file { if std::fs::write(&path, &text).is_err() { ctx.inconclusive("cannot_write_temp_file"); continue; } }
        let base_args = |extra: Vec<String>| -> Vec<String> { let mut a = extra; if let Some(u) = &default_setns { a.push("--setns".into()); a.push(format!("xmlns={}", u)); } else { for (p, u) in &ns { a.push("--setns".into()); a.push(format!("xmlns:{}={}", p, u)); } } if via_file { a.push(path.clone()); } a };
        let stdin = if via_file { None } else { Some(text.as_str()) };
        let ctxs = |args: &[String]| format!("args {:?} :: doc {}", args, text);

        if i % 2 == 0 {
            // ---- xq: prints exactly the selection
            let args = base_args(vec!["--xpath".into(), expr.clone(), "--no-indent".into()]);
            ctx.evaluations += 1; ctx.count(&format!("xq/{}", sel_kind)); ctx.nontrivial(&format!("xq|{}|{}", expr, text));
            if i % 97 == 0 { ctx.sample(&format!("xq {:?} < {}", args, crate::util::truncate(&text, 200))); }
            match run_tool("xq", &args, stdin) {
                Err(e) => ctx.inconclusive(&format!("spawn_failed:{}", crate::util::truncate(&e, 20))),
                Ok(run) => {
                    if let Some(sym) = ending(&run, true) { ctx.violation(i, &format!("C17/cli/xq/{}/-/{}", sel_kind, sym), &format!("status {:?} signal {:?} stderr {} :: {}", run.code, run.signal, crate::util::truncate(&run.stderr, 200), ctxs(&args)), &[("doc", &text), ("expr", &expr), ("args", &hexs(&args.join("\u{1}")))]); }
                    else if let Some((sym, detail)) = xq_output_check(&doc, &tree, &exp, &run.stdout) { ctx.violation(i, &format!("C17/cli/xq/{}/-/{}", sel_kind, sym), &format!("{} :: stdout {:?} :: {}", detail, crate::util::truncate(&run.stdout, 300), ctxs(&args)), &[("doc", &text), ("expr", &expr)]); }
                    else { ctx.count("xq/agree"); }
                    // indented output: must be produced without crash
                    if i % 6 == 0 { let a2 = base_args(vec!["--xpath".into(), expr.clone()]); if let Ok(r2) = run_tool("xq", &a2, stdin) { ctx.count("xq/indented"); if let Some(sym) = ending(&r2, true) { ctx.violation(i, &format!("C17/cli/xq/{}/indented/{}", sel_kind, sym), &ctxs(&a2), &[("doc", &text), ("expr", &expr)]); } } }
                }
            }
        } else {
            // ---- xe: rewrites exactly the selection
            let fk = r.below(9); let (frag, frag_kind) = gen_fragment(&mut r, fk);
            let minimal = r.chance(1, 2); let value = model::render_nodes(&frag, &mut r, Style { minimal });
            let args = base_args(vec!["--xpath".into(), expr.clone(), "--value".into(), value.clone(), "--no-indent".into()]);
            ctx.evaluations += 1; ctx.count(&format!("xe/{}/{}", sel_kind, frag_kind)); ctx.nontrivial(&format!("xe|{}|{}|{}", expr, value, text));
            if i % 97 == 1 { ctx.sample(&format!("xe {:?} < {}", args, crate::util::truncate(&text, 200))); }
            let expected: Result<Doc, EditErr> = match &exp { Outcome::Nodes(_) => { let sel: Vec<usize> = match crate::props::xpathp::ref_eval_dev(&tree, &ast, &[], None, xp::Dev::default()) { _ => selected_indexes(&tree, &ast, &ns) }; model_edit(&doc, &tree, &sel, &frag) } _ => Err(EditErr::Refuse("the path selects a value, not nodes")) };
            match run_tool("xe", &args, stdin) {
                Err(e) => ctx.inconclusive(&format!("spawn_failed:{}", crate::util::truncate(&e, 20))),
                Ok(run) => {
                    match &expected {
                        Err(EditErr::Unspecified) => { ctx.count("xe/unspecified-selection-beneath-replaced-node"); if let Some(sym) = ending(&run, false) { if sym != "exit-0-on-unusable-input" { ctx.violation(i, &format!("C17/cli/xe/{}/{}/{}", sel_kind, frag_kind, sym), &format!("status {:?} signal {:?} stderr {} :: {}", run.code, run.signal, crate::util::truncate(&run.stderr, 200), ctxs(&args)), &[("doc", &text), ("expr", &expr), ("value", &value)]); } } }
                        Err(EditErr::Model(m)) => { ctx.inconclusive("model_edit_failed"); if ctx.notes.len() < 6 { ctx.notes.push(format!("{} :: {}", m, ctxs(&args))); } }
                        Err(EditErr::Refuse(why)) => { if let Some(sym) = ending(&run, false) { ctx.violation(i, &format!("C17/cli/xe/{}/{}/{}", sel_kind, frag_kind, sym), &format!("unusable request ({}) :: status {:?} stderr {} stdout {} :: {}", why, run.code, crate::util::truncate(&run.stderr, 200), crate::util::truncate(&run.stdout, 200), ctxs(&args)), &[("doc", &text), ("expr", &expr), ("value", &value)]); } else { ctx.count("xe/refused-as-expected"); } }
                        Ok(want) => {
                            if let Some(sym) = ending(&run, true) { ctx.violation(i, &format!("C17/cli/xe/{}/{}/{}", sel_kind, frag_kind, sym), &format!("status {:?} signal {:?} stderr {} :: {}", run.code, run.signal, crate::util::truncate(&run.stderr, 300), ctxs(&args)), &[("doc", &text), ("expr", &expr), ("value", &value)]); }
                            else if let Some(why) = ref_disagrees(want, &run.stdout) { ctx.violation(i, &format!("C17/cli/xe/{}/{}/wrong-result", sel_kind, frag_kind), &format!("{} :: output {} :: {}", why, crate::util::truncate(&run.stdout, 400), ctxs(&args)), &[("doc", &text), ("expr", &expr), ("value", &value)]); }
                            else { ctx.count("xe/agree"); }
                            if i % 6 == 1 { let a2 = base_args(vec!["--xpath".into(), expr.clone(), "--value".into(), value.clone()]); if let Ok(r2) = run_tool("xe", &a2, stdin) { ctx.count("xe/indented"); if let Some(sym) = ending(&r2, true) { ctx.violation(i, &format!("C17/cli/xe/{}/{}/indented/{}", sel_kind, frag_kind, sym), &ctxs(&a2), &[("doc", &text), ("expr", &expr), ("value", &value)]); } else if !crate::refxml::parse(&r2.stdout, true).wf { ctx.violation(i, &format!("C17/cli/xe/{}/{}/indented/not-well-formed", sel_kind, frag_kind), &format!("output {} :: {}", crate::util::truncate(&r2.stdout, 300), ctxs(&a2)), &[("doc", &text), ("expr", &expr), ("value", &value)]); } } }
                        }
                    }
                }
            }
        }
        if via_file { let _ = std::fs::remove_file(&path); }
        // ---- unusable input: error message and non-zero status, never a crash
        if i % 4 == 0 {
            let bad: Vec<(&str, &str, Vec<String>, Option<String>)> = vec![
                ("xq", "ill-formed-document", vec!["--xpath".into(), "//*".into()], Some(format!("{}<", text))),
                ("xq", "ill-formed-document", vec!["--xpath".into(), "/".into()], Some("<a></b>".into())),
                ("xq", "empty-document", vec!["--xpath".into(), "/".into()], Some(String::new())),
                ("xq", "bad-expression", vec!["--xpath".into(), r.pick_s(&["//*[", "((", "//a b", "", "$v", "nosuch()", "//q:a", "1 +", "//*[1"]).to_string()], Some(text.clone())),
                ("xq", "missing-xpath", vec![], Some(text.clone())),
                ("xq", "xpath-twice", vec!["--xpath".into(), "/".into(), "--xpath".into(), "/".into()], Some(text.clone())),
                ("xq", "missing-file", vec!["--xpath".into(), "/".into(), "/nonexistent/c17.xml".into()], None),
                ("xq", "bad-setns", vec!["--xpath".into(), "/".into(), "--setns".into(), r.pick_s(&["p", "p=u", "x:p=u", "xmlns:p", "=u"]).to_string()], Some(text.clone())),
                ("xe", "ill-formed-value", vec!["--xpath".into(), "//*".into(), "--value".into(), r.pick_s(&["<a>", "</a>", "a<", "&nosuch;", "<a></b>", "&", "<![CDATA[x"]).to_string()], Some(text.clone())),
                ("xe", "missing-value", vec!["--xpath".into(), "//*".into()], Some(text.clone())),
                ("xe", "bad-expression", vec!["--xpath".into(), r.pick_s(&["//*[", "$v", "", "//q:a"]).to_string(), "--value".into(), "x".into()], Some(text.clone())),
                ("xe", "ill-formed-document", vec!["--xpath".into(), "//*".into(), "--value".into(), "x".into()], Some("<a><b></a>".into())),
            ];
            let (t, kind, args, si) = &bad[(i as usize / 4) % bad.len()];
            ctx.evaluations += 1; ctx.count(&format!("unusable/{}/{}", t, kind));
            match run_tool(t, args, si.as_deref()) {
                Err(_) => ctx.inconclusive("spawn_failed"),
                Ok(run) => if let Some(sym) = ending(&run, false) { ctx.violation(i, &format!("C17/cli/{}/unusable/{}/{}", t, kind, sym), &format!("status {:?} stderr {} stdout {} :: args {:?}", run.code, crate::util::truncate(&run.stderr, 200), crate::util::truncate(&run.stdout, 200), args), &[("doc", si.as_deref().unwrap_or("")), ("args", &args.join(" "))]); } else { ctx.count("unusable/refused"); }
            }
        }
    }
}

fn selected_indexes(tree: &RTree, ast: &xp::Expr, ns: &[(String, String)]) -> Vec<usize> {
    let env = xp::Env { tree, ns: ns.to_vec(), default_ns: None, dev: xp::Dev::default(), tainted: std::cell::Cell::new(false) };
    match env.eval(ast, xp::Cx { node: 0, pos: 1, size: 1 }) { Ok(xp::RV::Nodes(v)) => v, _ => vec![] }
}

/// Some((symptom, detail)) if xq's output is not exactly the expected selection
fn xq_output_check(doc: &Doc, tree: &RTree, exp: &Outcome, stdout: &str) -> Option<(String, String)> {
    match exp {
        Outcome::Bool(b) => if stdout.trim_end_matches('\n') == if *b { "true" } else { "false" } { None } else { Some(("wrong-boolean".into(), format!("expected {}", b))) },
        // the scalar is printed as string() converts it; the recorded finding "-0 is printed as -0" (C05-neg-zero-string) is admitted
        Outcome::Num(n) => { let t = stdout.strip_suffix('\n').unwrap_or(stdout); let want = xp::num_to_str(*n); if t == want || (*n == 0.0 && n.is_sign_negative() && t == "-0") { None } else { Some(("wrong-number".into(), format!("expected {:?} observed {:?}", want, t))) } }
        Outcome::Str(s) => if stdout.strip_suffix('\n') == Some(s.as_str()) { None } else { Some(("wrong-string".into(), format!("expected {:?}", s))) },
        Outcome::Err(e) => Some(("value-where-error-expected".into(), e.clone())),
        Outcome::Nodes(locs) => {
            let body = stdout.strip_suffix('\n').unwrap_or(stdout);
            let lines: Vec<&str> = if stdout.is_empty() { vec![] } else { body.split('\n').collect() };
            if lines.len() != locs.len() { return Some(("record-count".into(), format!("{} records for {} selected nodes", lines.len(), locs.len()))); }
            for (k, loc) in locs.iter().enumerate() {
                let n = tree.nodes.iter().position(|x| &x.locator == loc)?;
                let nd = &tree.nodes[n];
                let rec = lines[k];
                let bad = |why: String| Some((format!("record/{:?}", nd.kind), format!("record #{} {:?} for {}: {}", k, rec, loc, why)));
                match nd.kind {
                    RKind::Root => { if let Some(w) = ref_disagrees(doc, rec) { return bad(w); } }
                    RKind::Elem => {
                        let mut d2 = doc.clone(); let ents = model::Entities::of(doc);
                        let e = match elem_at_mut(&mut d2, &ents, loc) { Some(e) => e.clone(), None => return bad("model navigation failed".into()) };
                        if e.prefix.is_some() || subtree_uses_inherited_ns(&e) { continue; }
                        let sub = Doc { decl: None, pre: vec![], doctype: None, mid: vec![], root: e, post: vec![] };
                        if let Some(w) = ref_disagrees(&sub, rec) { return bad(w); }
                    }
                    RKind::Text | RKind::Comment | RKind::PI => {
                        let wrapped = format!("<x>{}</x>", rec);
                        let child = match nd.kind { RKind::Text => Node::Text(nd.value.clone()), RKind::Comment => Node::Comment(nd.value.clone()), _ => Node::PI(nd.local.clone(), if nd.value.is_empty() { None } else { Some(nd.value.clone()) }) };
                        let sub = Doc { decl: None, pre: vec![], doctype: None, mid: vec![], root: Elem { local: "x".into(), children: vec![child], ..Default::default() }, post: vec![] };
                        if let Some(w) = ref_disagrees(&sub, &wrapped) { return bad(w); }
                    }
                    RKind::Attr => {
                        if nd.prefix.is_some() { continue; }
                        let wrapped = format!("<x {}/>", rec);
                        let sub = Doc { decl: None, pre: vec![], doctype: None, mid: vec![], root: Elem { local: "x".into(), attrs: vec![Attr { prefix: None, local: nd.local.clone(), value: nd.value.chars().map(|c| if matches!(c, '\t' | '\n' | '\r') { APiece::CharRef(c, false) } else { APiece::Text(c.to_string()) }).collect() }], ..Default::default() }, post: vec![] };
                        if let Some(w) = ref_disagrees(&sub, &wrapped) { return bad(w); }
                    }
                    RKind::Ns => {}
                }
            }
            None
        }
        _ => None,
    }
}

/// a subtree printed on its own loses the declarations of its ancestors: such records are only counted
fn subtree_uses_inherited_ns(e: &Elem) -> bool {
    fn walk(e: &Elem, bound: &mut Vec<String>, dflt: &mut bool) -> bool {
        let mark = bound.len(); let d0 = *dflt;
        for (p, _) in &e.nsdecls { match p { Some(p) => bound.push(p.clone()), None => *dflt = true } }
        let mut bad = false;
        if let Some(p) = &e.prefix { if !bound.contains(p) { bad = true; } }
        for a in &e.attrs { if let Some(p) = &a.prefix { if p != "xml" && !bound.contains(p) { bad = true; } } }
        for c in &e.children { if let Node::Elem(x) = c { if walk(x, bound, dflt) { bad = true; } } }
        bound.truncate(mark); *dflt = d0;
        bad
    }
    // an inherited default namespace changes the expanded names of unprefixed elements as well
    walk(e, &mut vec![], &mut false)
}

pub fn witness(f: &[String], _: &mut Ctx) -> Option<String> {
    // fields: tool, stdin document, args joined by U+0001, expectation ("ok" | "error"), optional expected-output check is not replayed
    let (t, doc, args, want) = (f.first()?, f.get(1)?, f.get(2)?, f.get(3)?);
    let args: Vec<String> = args.split('\u{1}').map(|s| s.to_string()).collect();
    let run = run_tool(t, &args, Some(doc)).ok()?;
    ending(&run, want == "ok").map(|s| format!("C17/cli/{}/{}", t, s)).or_else(|| { if let Some(expect_out) = f.get(4) { if &run.stdout != expect_out { return Some(format!("C17/cli/{}/wrong-result", t)); } } None })
}
