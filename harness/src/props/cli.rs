use crate::Ctx;
pub fn c17(_: &mut Ctx) {}
pub fn witness(_: &[String], _: &mut Ctx) -> Option<String> { None }
