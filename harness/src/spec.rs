//! O2: character classes and name syntax typed from XML 1.0 (Fifth Edition) productions
//! [2] [4] [4a] [13] [81] and Namespaces in XML 1.0 [4] [7]. Independent of nom/src/xmlchar.rs.

pub fn is_char(c: char) -> bool {
    let u = c as u32;
    u == 0x9 || u == 0xA || u == 0xD || (0x20..=0xD7FF).contains(&u) || (0xE000..=0xFFFD).contains(&u) || (0x10000..=0x10FFFF).contains(&u)
}
const NAME_START: &[(u32, u32)] = &[
    (0x3A, 0x3A), (0x41, 0x5A), (0x5F, 0x5F), (0x61, 0x7A), (0xC0, 0xD6), (0xD8, 0xF6), (0xF8, 0x2FF), (0x370, 0x37D), (0x37F, 0x1FFF),
    (0x200C, 0x200D), (0x2070, 0x218F), (0x2C00, 0x2FEF), (0x3001, 0xD7FF), (0xF900, 0xFDCF), (0xFDF0, 0xFFFD), (0x10000, 0xEFFFF),
];
const NAME_EXTRA: &[(u32, u32)] = &[(0x2D, 0x2D), (0x2E, 0x2E), (0x30, 0x39), (0xB7, 0xB7), (0x300, 0x36F), (0x203F, 0x2040)];
pub fn is_name_start(c: char) -> bool { let u = c as u32; NAME_START.iter().any(|(a, b)| (*a..=*b).contains(&u)) }
pub fn is_name_char(c: char) -> bool { let u = c as u32; is_name_start(c) || NAME_EXTRA.iter().any(|(a, b)| (*a..=*b).contains(&u)) }
pub fn is_pubid(c: char) -> bool {
    matches!(c, ' ' | '\r' | '\n' | 'a'..='z' | 'A'..='Z' | '0'..='9' | '-' | '\'' | '(' | ')' | '+' | ',' | '.' | '/' | ':' | '=' | '?' | ';' | '!' | '*' | '#' | '@' | '$' | '_' | '%')
}
/// [81] EncName: characters allowed after the first letter
pub fn is_enc_name(c: char) -> bool { matches!(c, 'a'..='z' | 'A'..='Z' | '0'..='9' | '.' | '_' | '-') }

pub fn is_name(s: &str) -> bool {
    let mut it = s.chars();
    match it.next() { Some(c) if is_name_start(c) => {} _ => return false }
    it.all(is_name_char)
}
pub fn is_ncname(s: &str) -> bool { is_name(s) && !s.contains(':') }
pub fn is_qname(s: &str) -> bool {
    match s.find(':') {
        None => is_ncname(s),
        Some(i) => is_ncname(&s[..i]) && is_ncname(&s[i + 1..]),
    }
}
pub fn ranges_of(f: fn(char) -> bool) -> Vec<(u32, u32)> {
    let mut v = vec![]; let mut start: Option<u32> = None;
    for u in 0..=0x110000u32 {
        let b = char::from_u32(u).map(f).unwrap_or(false);
        match (b, start) { (true, None) => start = Some(u), (false, Some(s)) => { v.push((s, u - 1)); start = None; } _ => {} }
    }
    v
}
