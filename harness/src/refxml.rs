//! FFI to the libxml2 reference shim (refshim/refxml.c).
use std::ffi::{CStr, CString};
use std::os::raw::{c_char, c_int};

extern "C" {
    fn ref_parse(buf: *const c_char, len: c_int, mode: c_int) -> *mut c_char;
    fn ref_xpath(buf: *const c_char, len: c_int, expr: *const c_char, ns: *const c_char) -> *mut c_char;
    fn ref_free(p: *mut c_char);
    fn ref_init();
    fn ref_expat_wf(buf: *const c_char, len: c_int) -> c_int;
}

pub fn init() { unsafe { ref_init() } }

fn take(p: *mut c_char) -> String {
    if p.is_null() { return String::new(); }
    let s = unsafe { CStr::from_ptr(p) }.to_string_lossy().into_owned();
    unsafe { ref_free(p) };
    s
}

pub struct RefParse { pub wf: bool, pub err: i32, pub dump: String }

/// Parse with libxml2. Inputs containing NUL cannot be passed as such (libxml2 takes a length, so they can).
pub fn parse(text: &str, merged: bool) -> RefParse {
    let out = take(unsafe { ref_parse(text.as_ptr() as *const c_char, text.len() as c_int, if merged { 1 } else { 0 }) });
    let mut lines = out.splitn(2, '\n');
    let head = lines.next().unwrap_or("");
    let rest = lines.next().unwrap_or("").to_string();
    let mut it = head.split(' ');
    let _ = it.next();
    let wf = it.next() == Some("1");
    let err = it.next().and_then(|v| v.parse().ok()).unwrap_or(-1);
    RefParse { wf, err, dump: rest }
}

/// Evaluate an XPath expression with libxml2; None if the expression contains NUL.
pub fn xpath(text: &str, expr: &str, ns: &[(String, String)]) -> Option<String> {
    let e = CString::new(expr).ok()?;
    let mut nss = String::new();
    for (p, u) in ns { nss.push_str(p); nss.push('='); nss.push_str(u); nss.push('\n'); }
    let n = CString::new(nss).ok()?;
    Some(take(unsafe { ref_xpath(text.as_ptr() as *const c_char, text.len() as c_int, e.as_ptr(), n.as_ptr()) }))
}

/// expat's verdict on well-formedness
pub fn expat_wf(text: &str) -> Option<bool> {
    match unsafe { ref_expat_wf(text.as_ptr() as *const c_char, text.len() as c_int) } { 1 => Some(true), 0 => Some(false), _ => None }
}
